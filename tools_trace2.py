#!/usr/bin/env python3
import json,sys,subprocess
r=json.load(open(sys.argv[1])); ops=r['ops']; kv=r['exec_kv']
eng=r['engine']; cfg=r.get('config','dbg')
cmd="exec r1 verbose=1 "+" ".join(f"{k}={v}" for k,v in kv.items())+f" body={len(ops)}\n"+"\n".join(ops)+"\nquit\n"
o=subprocess.run([f'/verif/.build/{cfg}/eng_{eng}/{eng}_engine'],input=cmd,text=True,capture_output=True).stdout
print("\n".join(l for l in o.split("\n") if l[:2] in("T ","V ","P ","X ")))
print([o for o in ops if o[0] in 'xl'])
