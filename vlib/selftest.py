"""Determinism self-test: the same jobs executed twice, at two worker counts, must give identical
status, violation class and event-log hash (the gate every claimed violation also has to pass)."""
import itertools
import os

from . import common as C
from .checker import Check, result_class
from .pool import run_parallel
from .props import PROPS


def determinism(args=None):
    props = args or sorted(PROPS)
    n = int(os.environ.get("VERIF_SELFTEST_SEEDS", "300"))
    bad = 0
    total = 0
    for prop in props:
        spec = PROPS[prop]
        chk = Check(spec, prop, "quick", 4242)
        for part in chk.parts():
            cfg = part["configs"]["quick"][0]
            exe = C.build_engine(part["engine"], cfg)
            if part.get("jobs"):
                jobs = list(itertools.islice(part["jobs"](chk, part, cfg), n))
            else:
                jobs = [chk.job_for(i, cfg, part) for i in range(n)]
            table = []
            for nw in (3, 14):
                rs = run_parallel(exe, iter(jobs), nw)
                table.append({repr(r.cmd): (r.status, result_class(r), r.kv.get("hash"), r.kv.get("ihash")) for r in rs})
            diffs = [s for s in table[0] if table[0][s] != table[1].get(s)]
            total += len(table[0])
            bad += len(diffs)
            C.log("selftest determinism %s/%s: %d jobs x 2 worker counts, %d differences" % (prop, part["engine"], len(table[0]), len(diffs)))
            for s in diffs[:5]:
                C.log("   ", s[:160], table[0][s], table[1].get(s))
    C.log("selftest determinism: %d jobs, %d differences" % (total, bad))
    return 0 if bad == 0 else 2
