"""Determinism self-test: the same seeds executed twice, at two worker counts, must give identical
status, violation class and event-log hash (the gate every claimed violation also has to pass)."""
import os
import time

from . import common as C
from .checker import Check, result_class
from .pool import run_parallel
from .props import PROPS


def determinism(args=None):
    props = args or sorted(PROPS)
    n = int(os.environ.get("VERIF_SELFTEST_SEEDS", "300"))
    bad = 0
    total = 0
    for prop in props:
        spec = PROPS[prop]
        cfg = spec["configs"]["quick"][0]
        exe = C.build_engine(spec["engine"], cfg)
        chk = Check(spec, prop, "quick", 4242)
        table = []
        for nw in (3, 14):
            jobs = [chk.job_for(i, cfg) for i in range(n)]
            rs = run_parallel(exe, iter(jobs), nw)
            table.append({r.cmd[1]["seed"]: (r.status, result_class(r), r.kv.get("hash")) for r in rs})
        diffs = [s for s in table[0] if table[0][s] != table[1].get(s)]
        total += len(table[0])
        bad += len(diffs)
        C.log("selftest determinism %s: %d seeds x 2 worker counts, %d differences" % (prop, len(table[0]), len(diffs)))
        for s in diffs[:5]:
            C.log("   seed", s, table[0][s], table[1].get(s))
    C.log("selftest determinism: %d seeds, %d differences" % (total, bad))
    return 0 if bad == 0 else 2
