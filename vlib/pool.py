import os
"""Long-lived engine workers (one process each, every run forked inside it) and a parallel batch runner."""
import queue
import subprocess
import threading
import time


class Result:
    __slots__ = ("id", "lines", "status", "kv", "counters", "viol", "notes", "params", "ops", "trace", "exit", "sig", "timeout", "wall_ms", "crash", "cmd")

    def __init__(self):
        self.lines = []
        self.status = None
        self.kv = {}
        self.counters = {}
        self.viol = []
        self.notes = []
        self.params = {}
        self.ops = []
        self.trace = []
        self.exit = 0
        self.sig = 0
        self.timeout = 0
        self.wall_ms = 0
        self.crash = []
        self.cmd = None

    @property
    def cls(self):
        return self.viol[0]["class"] if self.viol else None


def _kv(s):
    out = {}
    for t in s.split(" "):
        if "=" in t:
            k, v = t.split("=", 1)
            out[k] = v
    return out


def parse_block(lines):
    r = Result()
    in_bt = False
    for ln in lines:
        if ln.startswith("X backtrace-begin"):
            in_bt = True
            continue
        if ln.startswith("X backtrace-end"):
            in_bt = False
            continue
        if in_bt and not ln.startswith("END "):
            r.crash.append(ln)
            continue
        if ln.startswith("R "):
            r.kv = _kv(ln[2:])
            r.status = r.kv.get("status")
        elif ln.startswith("C "):
            p = ln.split(" ")
            try:
                r.counters[p[1]] = r.counters.get(p[1], 0) + int(p[2])
            except (IndexError, ValueError):
                pass
        elif ln.startswith("V ") or ln.startswith("N "):
            head, _, msg = ln[2:].partition(" msg=")
            d = _kv(head)
            d["msg"] = msg
            (r.viol if ln[0] == "V" else r.notes).append(d)
        elif ln.startswith("P "):
            r.params = _kv(ln[2:])
        elif ln.startswith("O "):
            r.ops.append(ln[2:])
        elif ln.startswith("T "):
            r.trace.append(ln[2:])
        elif ln.startswith("X "):
            r.crash.append(ln[2:])
        elif ln.startswith("END "):
            d = _kv(ln)
            r.exit = int(d.get("exit", 0))
            r.sig = int(d.get("sig", 0))
            r.timeout = int(d.get("timeout", 0))
            r.wall_ms = int(d.get("wall_ms", 0))
        else:
            r.lines.append(ln)
    if r.status is None:
        if r.timeout:
            r.status = "TIMEOUT"
        elif r.sig or r.exit:
            r.status = "CRASH"
        else:
            r.status = "NORESULT"
    return r


class Worker:
    def __init__(self, exe, env=None):
        self.exe = exe
        self.env = env
        self.p = None
        self.n = 0
        self.start()

    def start(self):
        env = self.env
        dbg = os.environ.get("VERIF_ENGINE_PRELOAD")  # diagnosis only: an instrumented copy of a repo library in front of the engine, its stderr to a file
        if dbg:
            env = dict(env if env is not None else os.environ, LD_PRELOAD=dbg)
        self.p = subprocess.Popen([self.exe], stdin=subprocess.PIPE, stdout=subprocess.PIPE, stderr=open(os.environ["VERIF_ENGINE_STDERR"], "a") if dbg and os.environ.get("VERIF_ENGINE_STDERR") else subprocess.DEVNULL, text=True, encoding="utf-8", errors="replace", bufsize=1, env=env)

    def close(self):
        try:
            self.p.stdin.write("quit\n")
            self.p.stdin.flush()
            self.p.wait(timeout=5)
        except Exception:
            try:
                self.p.kill()
            except Exception:
                pass

    def run(self, verb, kv, body=None):
        """send one command, return the parsed Result (restarting the worker if it died)."""
        self.n += 1
        rid = "r%d" % self.n
        cmd = verb + " " + rid + "".join(" %s=%s" % (k, v) for k, v in kv.items())
        if body:
            cmd += " body=%d" % len(body)
        text = cmd + "\n" + "".join(b + "\n" for b in (body or []))
        lines = []
        try:
            self.p.stdin.write(text)
            self.p.stdin.flush()
            while True:
                ln = self.p.stdout.readline()
                if not ln:
                    raise BrokenPipeError()
                ln = ln.rstrip("\n")
                if ln.startswith("BEGIN "):
                    continue
                lines.append(ln)
                if ln.startswith("END " + rid):
                    break
        except (BrokenPipeError, OSError):
            try:
                self.p.kill()
            except Exception:
                pass
            self.start()
            lines.append("END %s exit=255 sig=0 timeout=0 wall_ms=0" % rid)
        r = parse_block(lines)
        r.cmd = (verb, dict(kv), list(body or []))
        return r


def run_parallel(exe, jobs, nworkers, deadline=None, env=None, on_result=None):
    """jobs: iterator of (verb, kv, body). Runs them on nworkers workers until exhausted or the deadline."""
    q = queue.Queue(maxsize=nworkers * 2)
    results = []
    lock = threading.Lock()
    stop = threading.Event()

    def feeder():
        for j in jobs:
            if stop.is_set() or (deadline and time.time() > deadline):
                break
            while not stop.is_set():
                try:
                    q.put(j, timeout=0.2)
                    break
                except queue.Full:
                    continue
        for _ in range(nworkers):
            q.put(None)

    def work():
        w = Worker(exe, env)
        try:
            while True:
                j = q.get()
                if j is None:
                    break
                if stop.is_set():
                    continue
                r = w.run(*j)
                with lock:
                    results.append(r)
                    if on_result and on_result(r):
                        stop.set()
        finally:
            w.close()

    ts = [threading.Thread(target=work, daemon=True) for _ in range(nworkers)]
    ft = threading.Thread(target=feeder, daemon=True)
    ft.start()
    for t in ts:
        t.start()
    for t in ts:
        t.join()
    stop.set()
    # drain so that the feeder can finish
    try:
        while True:
            q.get_nowait()
    except queue.Empty:
        pass
    ft.join(timeout=2)
    return results
