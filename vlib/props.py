"""Per-property check specifications."""

NET_COMPONENTS = {"real": ["smt::sat_core", "clause", "theory", "lra_theory (+assertion,row)", "idl_theory", "rdl_theory", "ov_theory", "rational/inf_rational/lin"],
                  "stub": [], "reference": ["z3 (entailment/satisfiability over Bool/Real/Int)", "own Floyd-Warshall over mpq pairs", "own three-valued evaluator"]}
NET_RULE = ("a run = one seeded history of API calls on the real network (ops interpreted modulo what exists) under one seeded heap layout; "
            "non-trivial = the network recorded >=1 learnt/lemma clause or answered false or backjumped inside assume, and the history popped/next-ed/checked at least once; "
            "distinct = distinct hash of (theory set, matrix size, theory order, op list)")
NET_ASSUME = ["z3 4.8.12 verdicts (unsat/sat) are correct; 'unknown' under the deterministic rlimit is counted as inconclusive, never as a violation",
              "the history respects the documented API preconditions (creation only at root, assume only on an undefined literal with an empty queue)"]


def net(prop, quick=40, thorough=900):
    return {"engine": "net", "configs": {"quick": ["dbg"], "thorough": ["dbg", "rel"]}, "budget": {"quick": quick, "thorough": thorough},
            "level": "exploration", "rule": NET_RULE, "components": NET_COMPONENTS, "assumptions": NET_ASSUME, "sim_time_counter": "ops_done"}


PROPS = {p: net(p) for p in ["C07", "C08", "C09", "C10", "C11", "C12", "C13", "C14"]}
