"""Per-property check specifications."""

NET_COMPONENTS = {"real": ["smt::sat_core", "clause", "theory", "lra_theory (+assertion,row)", "idl_theory", "rdl_theory", "ov_theory", "rational/inf_rational/lin"],
                  "stub": ["the client of the LRA theory (guard literals + direct bounds)"], "reference": ["z3 (entailment/satisfiability over Bool/Real/Int)", "own Floyd-Warshall over mpq pairs", "own three-valued evaluator", "structural invariants over the network's own tables (N9 path trees, N10 theory bindings, N11 unit-propagation fixpoint over every clause given or recorded)"]}
NET_RULE = ("a run = one seeded history of API calls on the real network (ops interpreted modulo what exists) under one seeded heap layout and heap fill, including - in LRA runs - "
            "a simulated client that decides its own literals, imposes bounds directly (set_lb/set_ub/set) and hands conflicts found outside propagation to backtrack_analyze_and_backjump; "
            "non-trivial = the network recorded >=1 learnt/lemma clause or answered false or backjumped inside assume, and the history popped/next-ed/checked at least once; "
            "distinct = distinct hash of (theory set, matrix size, theory order, op list)")
NET_ASSUME = ["z3 4.8.12 verdicts (unsat/sat) are correct; 'unknown' under the deterministic rlimit is counted as inconclusive, never as a violation",
              "the history respects the documented API preconditions (creation only at root, assume only on an undefined literal with an empty queue)"]


def net(prop, quick=40, thorough=900):
    return {"engine": "net", "configs": {"quick": ["dbg"], "thorough": ["dbg", "rel"]}, "budget": {"quick": quick, "thorough": thorough},
            "level": "exploration", "rule": NET_RULE, "components": NET_COMPONENTS, "assumptions": NET_ASSUME, "sim_time_counter": "ops_done"}


PROPS = {p: net(p) for p in ["C07", "C08", "C09", "C10", "C11", "C12", "C13", "C14"]}


PLAN_COMPONENTS = {"real": ["riddle lexer/parser", "core (types, items, constructors, predicates)", "solver (graph h_1, flaws, resolvers, smart types)", "smt (sat_core, LRA, IDL, RDL, OV)"],
                   "stub": [], "reference": ["own exact evaluator of the generated AST (GMP rationals + epsilon)", "z3 on the constraint-only fragment for negative verdicts", "C02: the same problem in five equivalent formulations (constraints reordered, tautology added, dead disjunct added, goal/fact statements reversed, a fact stated twice) and one relaxation read by a fresh solver; a block solvable by construction (unification only) read alone"]}
PLAN_RULE = ("a run = one generated RIDDLE problem (integer ops -> own AST -> text) delivered as a history of read()/solve()/pop-to-root calls under one seeded heap layout and heap fill "
             "(layout 0 = LIFO, others = seeded slot choice; each problem runs under K layouts); non-trivial = the planner created at least one flaw with >= 2 resolvers; "
             "distinct = distinct hash of (program text of all units, layout)")
PLAN_ASSUME = ["the generated fragment only (see DESIGN.md 3.2); solve() not finishing within the per-run wall limit is counted as inconclusive",
               "z3 verdicts on the constraint-only fragment are correct"]


def plan(prop, quick=40, thorough=900):
    return {"engine": "plan", "configs": {"quick": ["dbg"], "thorough": ["dbg", "rel", "dbg_hadd", "dbg_ci", "rel_hadd_ci"]}, "budget": {"quick": quick, "thorough": thorough},
            "layouts": {"quick": 3, "thorough": 6}, "run_kv": {"timeout_ms": 3000},
            "level": "exploration", "rule": PLAN_RULE, "components": PLAN_COMPONENTS, "assumptions": PLAN_ASSUME, "sim_time_counter": "solves"}


for _p in ["C01", "C02", "C03", "C04", "C05", "C06", "C17"]:
    PROPS[_p] = plan(_p)


# ---------------------------------------------------------------------------------------------
# C18: input faults (IO engine, enumerated) + valid programs / histories under assert-enabled and sanitizer builds
# ---------------------------------------------------------------------------------------------
import os as _os

BUILTIN_CORPUS = _os.path.join(_os.path.dirname(_os.path.dirname(_os.path.abspath(__file__))), "sim", "io", "corpus")


def io_corpus(tier):
    from . import common as C
    files = []
    for root, dirs, fs in _os.walk(_os.path.join(C.REPO, "examples")):
        for f in fs:
            if f.endswith(".rddl"):
                files.append(_os.path.join(root, f))
    for f in sorted(_os.listdir(BUILTIN_CORPUS)):
        files.append(_os.path.join(BUILTIN_CORPUS, f))
    files.sort(key=lambda p: (_os.path.getsize(p), p))
    lim = 1400 if tier == "quick" else 1 << 20
    return [f for f in files if _os.path.getsize(f) <= lim]


def io_jobs(check, part, cfg):
    files = io_corpus(check.tier)
    kv = {"prop": "C18", "timeout_ms": 60000, "mem_mb": 2048}
    chunk = 120
    # layer a (parser alone): every prefix, both fault kinds; layer b (full reader): every prefix of every file
    for layer, faults in (("a", ("eof", "bad")), ("b", ("eof",))):
        for f in files:
            n = _os.path.getsize(f) + 1
            for fault in faults:
                for a in range(0, n, chunk):
                    yield ("exec", dict(kv), ["trunc file=%s layer=%s fault=%s from=%d to=%d" % (f, layer, fault, a, min(n, a + chunk))])
    # sampled byte mutations, parser alone
    from .common import run_seed
    k = 0
    rounds = 6 if check.tier == "quick" else 60
    for rnd in range(rounds):
        for f in files:
            k += 1
            yield ("exec", dict(kv), ["mut file=%s layer=a seed=%d first=0 count=40" % (f, run_seed(check.master, "C18", check.tier, k))])


IO_RULE = ("an input = (corpus file, prefix length, fault kind eof|stream-goes-bad, layer parser|reader) - every prefix length of every corpus file is enumerated, each parsed again under three heap fills (outcome and message must not depend on memory outside the input) - "
           "or a seeded byte mutation of a corpus file; plus seeded valid programs (PLAN engine) and valid API histories (NET engine) run on assert-enabled (and, thorough, ASan+UBSan) builds; "
           "non-trivial = the cut lands inside a token (neither neighbour is white space), a mutation, or a PLAN/NET run that is non-trivial by that engine's rule; distinct = distinct (op, input) resp. history hash")

PROPS["C18"] = {
    "parts": [
        {"engine": "io", "configs": {"quick": ["dbg"], "thorough": ["dbg", "rel"]}, "share": 0.5, "jobs": io_jobs, "run_kv": {}},
        {"engine": "plan", "configs": {"quick": ["dbg"], "thorough": ["dbg", "asan"]}, "share": 0.25, "run_kv": {"timeout_ms": 3000, "prop": "C18", "hang_is_failure": "read"}, "layouts": {"quick": 2, "thorough": 3}},
        {"engine": "net", "configs": {"quick": ["dbg"], "thorough": ["dbg", "asan"]}, "share": 0.25, "run_kv": {"prop": "C18", "timeout_ms": 6000, "hang_is_failure": 1}},
    ],
    "engine": "io", "configs": {"quick": ["dbg"], "thorough": ["dbg", "rel", "asan"]}, "budget": {"quick": 60, "thorough": 1200},
    "level": "fault_enumeration", "rule": IO_RULE, "minimise": True,
    "components": {"real": ["riddle lexer/parser", "core reader", "solver", "smt"], "stub": ["the std::streambuf feeding the lexer (ends or fails at the chosen byte)"],
                   "reference": ["process outcome classification only (returned / std::exception / anything else)"]},
    "assumptions": ["a program is 'valid' if the PLAN generator produced it or it is one of the repository's examples", "CPU-time bound per input: 2 s",
                    "mutated-but-parsable ill-typed text (layer c) is represented by the canary of the open finding only"],
    "sim_time_counter": "inputs",
}


EXEC_RULE = ("a run = one solved generated problem executed tick by tick (units per tick from {1, 1/2, 2, 5/3}) under one seeded heap layout, with a seeded sequence of "
             "dont_start_yet / dont_end_yet requests (delays 0, 1/2, 1, 3, 10) made inside the starting/ending callbacks, failure() of executing or pending atoms and late goals/facts between ticks; "
             "faults stop before a final run-out of 12 ticks; non-trivial = at least one injected fault fired and led to an adaptation (re-solve); distinct = distinct hash of (op list, layout, tick unit)")
PROPS["C19"] = {"engine": "exec", "configs": {"quick": ["dbg"], "thorough": ["dbg", "rel"]}, "budget": {"quick": 45, "thorough": 900},
                "layouts": {"quick": 2, "thorough": 4}, "run_kv": {"timeout_ms": 4000}, "level": "exploration", "rule": EXEC_RULE,
                "components": {"real": ["ratio::executor", "solver", "core", "riddle", "smt"], "stub": ["the client (executor_listener implementation)", "the clock (a loop calling tick(); executor/timer.h is not used)"],
                               "reference": ["dispatch-history invariants X1-X7 over the recorded callbacks", "PLAN's exact solution checker after every adaptation"]},
                "assumptions": ["LA temporal network only (the executor adapts real-valued start/end/at)", "an execution_exception is a legal outcome and ends the run"],
                "sim_time_counter": "ticks"}


# ---------------------------------------------------------------------------------------------
# C20: parallel pivoting under the deterministic thread scheduler
# ---------------------------------------------------------------------------------------------
def par_jobs(check, part, cfg):
    """for every history: its log under the sequential build (separate binary) is the reference; then the PARALLELIZE
    build runs it under the canonical schedule and under K seeded schedules x pool sizes, each told what to expect."""
    from . import common as C
    from .pool import Worker
    seq = Worker(C.build_engine("par", "seq"))
    k = 6 if check.tier == "quick" else 24
    sizes = [1, 2, 3, 4] if check.tier == "quick" else [1, 2, 3, 4, 8]
    try:
        i = 0
        while True:
            seed = C.run_seed(check.master, "C20", check.tier, i)
            i += 1
            ref = seq.run("run", {"seed": seed, "prop": "C20"})
            if ref.status != "OK":
                continue
            h = ref.kv.get("hash")
            check.seq_refs = getattr(check, "seq_refs", 0) + 1
            yield ("run", {"seed": seed, "sched": 0, "policy": 0, "nprocs": 3, "expect": h, "prop": "C20"}, None)
            for j in range(1, k + 1):
                m = C.mix64(seed ^ j)
                yield ("run", {"seed": seed, "sched": j, "policy": 1 + (m & 1), "nprocs": sizes[(m >> 1) % len(sizes)], "spurious": [0, 20, 60][(m >> 8) % 3], "expect": h, "prop": "C20"}, None)
            # two caller threads, each with a network of its own, run the history at the same time (process-wide state in the library)
            for j in range(k + 1, k + (3 if check.tier == "quick" else 7)):
                m = C.mix64(seed ^ j)
                yield ("run", {"seed": seed, "sched": j, "policy": 1 + (m & 1), "nprocs": [1, 2, 3, 4][(m >> 1) % 4], "spurious": [0, 20][(m >> 8) % 2], "clients": 2, "expect": h, "prop": "C20"}, None)
    finally:
        seq.close()


PAR_RULE = ("a run = one seeded LRA history (NET generator, LRA profile, extra relations for dense tableaux) executed by the PARALLELIZE build under one schedule: "
            "the scheduler owns every pthread synchronisation point (mutex lock/unlock, condition wait/signal/broadcast, thread create/join) and decides who runs; "
            "policy canonical / uniformly random / sticky random, pool sizes 1-4 (8 thorough), faults: spurious wake-ups, late worker start, lost races for a mutex; two schedules per history (six thorough) run TWO caller threads at once, each with a network and pool of its own, on the same history; "
            "reference = observation log of the same history on the PARALLELIZE=OFF build; non-trivial = at least two worker threads executed pivot tasks and at least two were busy at the same time; "
            "distinct = distinct (history, schedule decisions) hash")
PROPS["C20"] = {"engine": "par", "configs": {"quick": ["par"], "thorough": ["par"]}, "budget": {"quick": 45, "thorough": 900}, "jobs": par_jobs, "minimise": True, "reference_config": "seq",
                "run_kv": {}, "level": "exploration", "rule": PAR_RULE,
                "components": {"real": ["smt::sat_core", "smt::lra_theory (PARALLELIZE=ON, -fsanitize=thread instrumentation)", "smt::thread_pool (libconcurrent)", "libstdc++ std::thread / std::mutex / std::condition_variable"],
                               "stub": ["pthread_mutex_*/pthread_cond_*/pthread_create/pthread_join/get_nprocs are interposed by the scheduler (the real primitives are never blocked on)", "the TSan runtime is replaced by the engine's own happens-before detector"],
                               "reference": ["observation log of the sequential (PARALLELIZE=OFF) build", "vector-clock happens-before race detector", "deadlock = no runnable thread"]},
                "assumptions": ["accesses inside uninstrumented libraries (libstdc++.so internals) are invisible to the race detector", "main-thread accesses create shadow cells only while some worker is busy"],
                "sim_time_counter": "sched.steps"}


# quick tier = a fixed number of runs per property (about what 35-40 s give on the 16-core sandbox), so that the
# work done - and the evidence written - does not depend on how loaded the machine is; the time budget x 6 is only a cap
QUICK_RUNS = {"C01": 16800, "C02": 14000, "C03": 8400, "C04": 12600, "C05": 15400, "C06": 10500, "C07": 18200, "C08": 15400, "C09": 5600, "C10": 15400,
              "C11": 5300, "C12": 18200, "C13": 9800, "C14": 4800, "C17": 30800, "C18": 16800, "C19": 9100, "C20": 7800}
for _p, _n in QUICK_RUNS.items():
    PROPS[_p]["quick_runs"] = _n
PROPS["C18"]["parts"][0]["enumerated"] = True  # the IO part enumerates a finite list: never cut by a run count
