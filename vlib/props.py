"""Per-property check specifications."""

NET_COMPONENTS = {"real": ["smt::sat_core", "clause", "theory", "lra_theory (+assertion,row)", "idl_theory", "rdl_theory", "ov_theory", "rational/inf_rational/lin"],
                  "stub": [], "reference": ["z3 (entailment/satisfiability over Bool/Real/Int)", "own Floyd-Warshall over mpq pairs", "own three-valued evaluator"]}
NET_RULE = ("a run = one seeded history of API calls on the real network (ops interpreted modulo what exists) under one seeded heap layout; "
            "non-trivial = the network recorded >=1 learnt/lemma clause or answered false or backjumped inside assume, and the history popped/next-ed/checked at least once; "
            "distinct = distinct hash of (theory set, matrix size, theory order, op list)")
NET_ASSUME = ["z3 4.8.12 verdicts (unsat/sat) are correct; 'unknown' under the deterministic rlimit is counted as inconclusive, never as a violation",
              "the history respects the documented API preconditions (creation only at root, assume only on an undefined literal with an empty queue)"]


def net(prop, quick=40, thorough=900):
    return {"engine": "net", "configs": {"quick": ["dbg"], "thorough": ["dbg", "rel"]}, "budget": {"quick": quick, "thorough": thorough},
            "level": "exploration", "rule": NET_RULE, "components": NET_COMPONENTS, "assumptions": NET_ASSUME, "sim_time_counter": "ops_done"}


PROPS = {p: net(p) for p in ["C07", "C08", "C09", "C10", "C11", "C12", "C13", "C14"]}


PLAN_COMPONENTS = {"real": ["riddle lexer/parser", "core (types, items, constructors, predicates)", "solver (graph h_1, flaws, resolvers, smart types)", "smt (sat_core, LRA, IDL, RDL, OV)"],
                   "stub": [], "reference": ["own exact evaluator of the generated AST (GMP rationals + epsilon)", "z3 on the constraint-only fragment for negative verdicts"]}
PLAN_RULE = ("a run = one generated RIDDLE problem (integer ops -> own AST -> text) delivered as a history of read()/solve()/pop-to-root calls under one seeded heap layout "
             "(layout 0 = LIFO, others = seeded slot choice; each problem runs under K layouts); non-trivial = the planner created at least one flaw with >= 2 resolvers; "
             "distinct = distinct hash of (program text of all units, layout)")
PLAN_ASSUME = ["the generated fragment only (see DESIGN.md 3.2); solve() not finishing within the per-run wall limit is counted as inconclusive",
               "z3 verdicts on the constraint-only fragment are correct"]


def plan(prop, quick=40, thorough=900):
    return {"engine": "plan", "configs": {"quick": ["dbg"], "thorough": ["dbg", "rel", "dbg_hadd", "dbg_ci", "rel_hadd_ci"]}, "budget": {"quick": quick, "thorough": thorough},
            "layouts": {"quick": 3, "thorough": 6}, "run_kv": {"timeout_ms": 3000},
            "level": "exploration", "rule": PLAN_RULE, "components": PLAN_COMPONENTS, "assumptions": PLAN_ASSUME, "sim_time_counter": "solves"}


for _p in ["C01", "C02", "C03", "C04", "C05", "C06", "C17"]:
    PROPS[_p] = plan(_p)
