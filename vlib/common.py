"""Shared helpers of the supervisor: seeds, paths, builds of /repo's working tree, engine compilation."""
import fcntl
import hashlib
import json
import os
import subprocess
import sys
import time

VERIF = os.path.dirname(os.path.dirname(os.path.abspath(__file__)))
REPO = os.environ.get("VERIF_REPO", "/repo")
BUILD = os.environ.get("VERIF_BUILD", os.path.join(VERIF, ".build"))
MASK = (1 << 64) - 1


def mix64(z):
    z = (z + 0x9E3779B97F4A7C15) & MASK
    z = ((z ^ (z >> 30)) * 0xBF58476D1CE4E5B9) & MASK
    z = ((z ^ (z >> 27)) * 0x94D049BB133111EB) & MASK
    return z ^ (z >> 31)


def fnv64(s):
    h = 1469598103934665603
    for c in s.encode():
        h ^= c
        h = (h * 1099511628211) & MASK
    return h


def run_seed(master, prop, tier, i):
    """seed of run i of a check: a pure function of (VERIF_SEED, property, tier, i)."""
    return mix64(mix64(master ^ fnv64(prop + "/" + tier)) ^ mix64(i)) >> 1  # keep it below 2^63 (strtoull-safe anyway)


def log(*a):
    print(*a, flush=True)


# ---------------------------------------------------------------------------------------------
# build configurations of /repo (the repo's own CMake, flags only on the command line)
# ---------------------------------------------------------------------------------------------
CONFIGS = {
    # name: (cmake args, extra compile flags for engines)
    "dbg": ["-DCMAKE_BUILD_TYPE=Debug", "-DBUILD_EXECUTOR=ON"],
    "rel": ["-DCMAKE_BUILD_TYPE=Release", "-DBUILD_EXECUTOR=ON"],
    "dbg_hadd": ["-DCMAKE_BUILD_TYPE=Debug", "-DBUILD_EXECUTOR=ON", "-DHEURISTIC_TYPE=h_add"],
    "dbg_ci": ["-DCMAKE_BUILD_TYPE=Debug", "-DBUILD_EXECUTOR=ON", "-DCHECK_INCONSISTENCIES=ON"],
    "rel_hadd_ci": ["-DCMAKE_BUILD_TYPE=Release", "-DBUILD_EXECUTOR=ON", "-DHEURISTIC_TYPE=h_add", "-DCHECK_INCONSISTENCIES=ON"],
    "rel_ci": ["-DCMAKE_BUILD_TYPE=Release", "-DBUILD_EXECUTOR=ON", "-DCHECK_INCONSISTENCIES=ON"],
    "rel_hadd": ["-DCMAKE_BUILD_TYPE=Release", "-DBUILD_EXECUTOR=ON", "-DHEURISTIC_TYPE=h_add"],
    "dbg_hadd_ci": ["-DCMAKE_BUILD_TYPE=Debug", "-DBUILD_EXECUTOR=ON", "-DHEURISTIC_TYPE=h_add", "-DCHECK_INCONSISTENCIES=ON"],
    "asan": ["-DCMAKE_BUILD_TYPE=Debug", "-DBUILD_EXECUTOR=ON"],
    "par": ["-DCMAKE_BUILD_TYPE=Debug", "-DPARALLELIZE=ON"],
    "seq": ["-DCMAKE_BUILD_TYPE=Debug"],
}
CONFIG_CXXFLAGS = {
    "asan": "-fsanitize=address,undefined -fno-sanitize=vptr -fno-sanitize-recover=undefined -fno-omit-frame-pointer",
    "par": "-fsanitize=thread",
    "seq": "",
}
CONFIG_LDFLAGS = {
    "asan": "-fsanitize=address,undefined",
    "par": "-fno-sanitize=all",
}
CONFIG_TARGETS = {"par": ["smt"], "seq": ["smt"]}  # the executables of the repo cannot link without the TSan callbacks
GUARD = "-DPSTLAB_ORATIO_VERIF"


class Lock:
    def __init__(self, path):
        os.makedirs(os.path.dirname(path), exist_ok=True)
        self.f = open(path, "w")

    def __enter__(self):
        fcntl.flock(self.f, fcntl.LOCK_EX)
        return self

    def __exit__(self, *a):
        fcntl.flock(self.f, fcntl.LOCK_UN)
        self.f.close()


def sh(cmd, **kw):
    return subprocess.run(cmd, shell=isinstance(cmd, str), stdout=subprocess.PIPE, stderr=subprocess.STDOUT, text=True, **kw)


def build_repo(config):
    """configure + build /repo's current working tree into .build/<config>; returns the build dir."""
    bdir = os.path.join(BUILD, config)
    with Lock(os.path.join(BUILD, config + ".lock")):
        t0 = time.time()
        cxx = (GUARD + " " + CONFIG_CXXFLAGS.get(config, "")).strip()
        args = ["cmake", "-G", "Ninja", "-S", REPO, "-B", bdir, "-DBUILD_TESTING=OFF", "-DCMAKE_CXX_FLAGS=" + cxx] + CONFIGS[config]
        ld = CONFIG_LDFLAGS.get(config)
        if ld:
            args += ["-DCMAKE_SHARED_LINKER_FLAGS=" + ld, "-DCMAKE_EXE_LINKER_FLAGS=" + ld]
        r = sh(args)
        if r.returncode != 0:
            log(r.stdout[-4000:])
            raise SystemExit(2)
        r = sh(["cmake", "--build", bdir, "-j", "16"] + (["--target"] + CONFIG_TARGETS[config] if config in CONFIG_TARGETS else []))
        if r.returncode != 0:
            log(r.stdout[-6000:])
            log("BUILD FAILED for configuration", config)
            raise SystemExit(2)
        return bdir, time.time() - t0


REPO_INC = ["smt", "smt/arith", "smt/arith/lra", "smt/arith/dl", "smt/ov", "smt/json", "smt/concurrent", "riddle", "core", "solver", "solver/flaws",
            "solver/types", "solver/heuristics", "executor"]
BUILD_INC = ["smt", "smt/json", "smt/concurrent", "riddle", "core", "solver", "executor"]

ENGINES = {
    "net": {
        "sources": ["sim/net/engine_core.cpp", "sim/net/engine_ops.cpp", "sim/net/engine_ops2.cpp", "sim/net/engine_exec.cpp", "sim/net/engine_oracles.cpp",
                    "sim/net/net_main.cpp", "sim/core/layout.cpp"],
        "libs": ["-lsmt", "-ljson", "-lz3", "-lgmpxx", "-lgmp"],
        "cxxflags": ["-fno-access-control"],  # oracle N9 reads the DL theories' path trees
    },
    "io": {
        "sources": ["sim/io/io_main.cpp", "sim/core/layout.cpp"],
        "libs": ["-lsolver", "-lcore", "-lriddle", "-lsmt", "-ljson"],
    },
    "exec": {
        "sources": ["sim/exec/exec_main.cpp", "sim/core/layout.cpp"],
        "libs": ["-lexecutor", "-lsolver", "-lcore", "-lriddle", "-lsmt", "-ljson", "-lgmpxx", "-lgmp"],
    },
    "par": {
        "sources": ["sim/par/par_main.cpp", "sim/par/sched.cpp", "sim/core/layout.cpp"],
        "libs": ["-lsmt", "-ljson"],
        "libs_by_config": {"par": ["-lconcurrent"]},
        "cxxflags": ["-fno-access-control"],  # the structural oracle reads lra_theory's tableau and watch lists
    },
    "plan": {
        "sources": ["sim/plan/plan_main.cpp", "sim/core/layout.cpp"],
        "libs": ["-lsolver", "-lcore", "-lriddle", "-lsmt", "-ljson", "-lz3", "-lgmpxx", "-lgmp"],
    },
}


def _hash_files(paths, extra=""):
    h = hashlib.sha256(extra.encode())
    for p in sorted(paths):
        try:
            with open(p, "rb") as f:
                h.update(p.encode())
                h.update(f.read())
        except OSError:
            pass
    return h.hexdigest()[:16]


def _repo_headers():
    out = []
    for root, dirs, files in os.walk(REPO):
        dirs[:] = [d for d in dirs if d not in (".git", "_build", "api", "gui", "examples")]
        for f in files:
            if f.endswith(".h") or f.endswith(".h.in"):
                out.append(os.path.join(root, f))
    return out


def _verif_headers():
    out = []
    for root, dirs, files in os.walk(os.path.join(VERIF, "sim")):
        for f in files:
            if f.endswith(".h"):
                out.append(os.path.join(root, f))
    return out


def build_engine(engine, config):
    """compile the engine against the headers of /repo's working tree and the libraries of <config>."""
    bdir, bt = build_repo(config)
    spec = ENGINES[engine]
    edir = os.path.join(bdir, "eng_" + engine)
    os.makedirs(edir, exist_ok=True)
    with Lock(os.path.join(BUILD, config + "." + engine + ".lock")):
        inc = ["-I" + os.path.join(REPO, d) for d in REPO_INC] + ["-I" + os.path.join(bdir, d) for d in BUILD_INC]
        flags = ["-std=c++17", "-O1", "-g", GUARD, "-DBUILD_LISTENERS"] + spec.get("cxxflags", [])
        if config == "asan":
            flags += CONFIG_CXXFLAGS["asan"].split() + ["-DVERIF_NO_LAYOUT"]
        if config == "par":
            flags += ["-DPARALLELIZE"]
        hdr_hash = _hash_files(_repo_headers() + _verif_headers(), " ".join(flags + inc))
        objs = []
        procs = []
        for src in spec["sources"]:
            sp = os.path.join(VERIF, src)
            obj = os.path.join(edir, os.path.basename(src).replace(".cpp", ".o"))
            stamp = obj + ".stamp"
            key = _hash_files([sp], hdr_hash)
            objs.append(obj)
            if os.path.exists(obj) and os.path.exists(stamp) and open(stamp).read() == key:
                continue
            cmd = ["g++"] + flags + inc + ["-c", sp, "-o", obj]
            procs.append((subprocess.Popen(cmd, stdout=subprocess.PIPE, stderr=subprocess.STDOUT, text=True), stamp, key, src))
        for p, stamp, key, src in procs:
            out, _ = p.communicate()
            if p.returncode != 0:
                log(out[-6000:])
                log("ENGINE COMPILE FAILED:", src, "configuration", config)
                raise SystemExit(2)
            open(stamp, "w").write(key)
        exe = os.path.join(edir, engine + "_engine")
        link = ["g++", "-o", exe] + objs + ["-L" + os.path.join(bdir, "lib"), "-Wl,-rpath," + os.path.join(bdir, "lib")] + spec["libs"] + spec.get("libs_by_config", {}).get(config, []) + ["-rdynamic", "-ldl", "-lpthread"]
        if config == "asan":
            link += CONFIG_LDFLAGS["asan"].split()
        r = sh(link)
        if r.returncode != 0:
            log(r.stdout[-6000:])
            log("ENGINE LINK FAILED:", engine, "configuration", config)
            raise SystemExit(2)
        return exe
