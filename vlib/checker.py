"""The check driver: build, canaries of known findings, seeded exploration on a worker pool, determinism
gate, minimisation, replay files, evidence."""
import json
import os
import re
import sys
import time

from . import common as C
from .minimise import minimise
from .pool import Worker, run_parallel

REPLAYS = os.environ.get("VERIF_REPLAYS", os.path.join(C.VERIF, "replays"))
EVIDENCE = os.environ.get("VERIF_EVIDENCE", os.path.join(C.VERIF, "evidence"))
FINDINGS = os.path.join(C.VERIF, "known_findings.json")


def load_findings():
    try:
        return json.load(open(FINDINGS))["findings"]
    except (OSError, ValueError, KeyError):
        return []


def finding_matches(f, prop, cls, msg):
    if f.get("status") != "open" or f.get("property") != prop:
        return False
    if f.get("class") and f["class"] != cls:
        return False
    if f.get("msg_regex") and not re.search(f["msg_regex"], msg or ""):
        return False
    return True


def _relabel_overflow(r):
    """a crash whose innermost repository frame is smt::rational arithmetic itself (division by zero after overflow,
    inf*0 assertion after a coefficient wrapped to 0) is machine overflow: outside every property's range."""
    if r.status != "CRASH":
        return
    try:  # not for the IO engine: turning a numeric literal of the input text into a number is the reader's job, a trap there is a crash on bad input
        if r.cmd and r.cmd[2] and str(r.cmd[2][0]).split(" ")[0] in ("trunc", "mut", "hex"):
            return
    except Exception:
        pass
    repo_frames = [x for x in r.crash if re.search(r"/lib(smt|json|riddle|core|solver|executor|concurrent)\.so\(", x)]
    if repo_frames and ("_ZNK3smt8rational" in repo_frames[0] or "_ZN3smt8rational" in repo_frames[0]):
        r.status = "OVERFLOW"


def _relabel_hang(r):
    """where the property itself says 'does not hang' (job kv hang_is_failure=1): a run the watchdog had to stop is a
    failure when its backtrace shows it stuck inside the repository's code (not inside z3 or the harness)."""
    mode = str(r.cmd[1].get("hang_is_failure", "")) if r.cmd else ""
    if r.status != "TIMEOUT" or mode not in ("1", "read") or not r.crash:
        return
    frames = [x for x in r.crash if "(" in x and "crash_handler" not in x]
    if mode == "read":
        # the planner's search need not terminate, reading a program must: stuck inside core::read / solver::read and not inside solve()
        if any("_ZN5ratio6solver5solveEv" in x for x in frames) or any("libz3" in x for x in frames[:8]):
            return
        if any(re.search(r"_ZN5ratio(4core|6solver)4readE", x) for x in frames):
            r.status = "HANG"
        return
    inner = frames[:8]
    if any("libz3" in x for x in inner):
        return
    if any(re.search(r"/lib(smt|json|riddle|core|solver|executor|concurrent)\.so\(", x) for x in inner):
        r.status = "HANG"


def is_failure(r):
    _relabel_overflow(r)
    _relabel_hang(r)
    return r.status in ("VIOL", "CRASH", "HANG")


def crash_class(r):
    """signature of a crash: signal + first frames inside the repository's libraries."""
    frames = []
    for ln in r.crash:
        m = re.search(r"/lib(smt|json|riddle|core|solver|executor|concurrent)\.so\((\w*)", ln)
        if m and m.group(2) and not re.match(r"_ZNK?St|_ZSt|_ZN9__gnu|_ZNK9__gnu", m.group(2)):
            frames.append(m.group(2)[:60])
    sig = r.sig or 0
    for ln in r.crash:
        if ln.startswith("signal="):
            sig = int(ln.split("=")[1])
    return "CRASH.sig%d.%s" % (sig, ".".join(frames[:2]) if frames else "noframe")


def result_class(r):
    _relabel_overflow(r)
    if r.status == "VIOL":
        return r.cls
    if r.status == "CRASH":
        return crash_class(r)
    _relabel_hang(r)
    if r.status == "HANG":
        if r.cmd and str(r.cmd[1].get("hang_is_failure", "")) == "read":
            return "HANG.read_does_not_return"  # (which frame of the loop the watchdog's signal meets differs from run to run)
        return "HANG." + crash_class(r).split(".", 2)[-1]
    if r.status == "TIMEOUT":
        return "TIMEOUT"
    return None


def result_msg(r):
    if r.viol:
        return r.viol[0].get("msg", "")
    return " | ".join(r.crash[:12])


class Check:
    def __init__(self, spec, prop, tier, master_seed):
        self.spec = spec
        self.prop = prop
        self.tier = tier
        self.master = master_seed
        self.t0 = time.time()
        self.results = []
        self.exes = {}
        self.known_seen = []
        self.violations = []  # (class, replay path, msg)
        self.machinery_error = None
        self.unquarantine = {}

    # ---- parts: a check is one or more (engine, workload) parts sharing the budget ----
    def parts(self):
        if "parts" in self.spec:
            return self.spec["parts"]
        return [{"engine": self.spec["engine"], "configs": self.spec["configs"], "share": 1.0, "run_kv": self.spec.get("run_kv", {}),
                 "layouts": self.spec.get("layouts"), "jobs": self.spec.get("jobs")}]

    # ---- engine interface ----
    def job_for(self, i, config, part=None):
        if part is not None:
            saved = self.spec
            self.spec = dict(saved, run_kv=part.get("run_kv", {}), layouts=part.get("layouts"))
            try:
                return self.job_for(i, config)
            finally:
                self.spec = saved
        k = self.spec.get("layouts", {}).get(self.tier, 0) if isinstance(self.spec.get("layouts"), dict) else 0
        if k:
            seed = C.run_seed(self.master, self.prop, self.tier, i // k)
            kv = {"seed": seed, "prop": self.prop, "layout": i % k}
        else:
            seed = C.run_seed(self.master, self.prop, self.tier, i)
            kv = {"seed": seed, "prop": self.prop}
        kv.update(self.spec.get("run_kv", {}))
        if os.environ.get("VERIF_PROFILE"):
            kv["profile"] = os.environ["VERIF_PROFILE"]
        kv.update(self.extra_kv())
        kv.update(self.unquarantine)
        return ("run", kv, None)

    @staticmethod
    def extra_kv():
        out = {}
        for t in os.environ.get("VERIF_EXTRA_KV", "").split():
            if "=" in t:
                k, v = t.split("=", 1)
                out[k] = v
        return out

    def exec_job(self, params, ops, extra=None):
        kv = {"prop": self.prop}
        kv.update({k: v for k, v in params.items()})
        kv.update(self.spec.get("run_kv", {}))
        kv.update(self.extra_kv())
        kv.update(self.unquarantine)
        if extra:
            kv.update(extra)
        return ("exec", kv, ops)

    # ---- phases ----
    def build(self):
        for part in self.parts():
            for cfg in part["configs"][self.tier]:
                self.exes[(part["engine"], cfg)] = C.build_engine(part["engine"], cfg)
        self.build_s = time.time() - self.t0

    def explore(self):
        budget = self.spec["budget"][self.tier]
        if os.environ.get("VERIF_BUDGET"):
            budget = float(os.environ["VERIF_BUDGET"])
        nw = int(os.environ.get("VERIF_WORKERS", self.spec.get("workers", 14)))
        self.failures = []
        base = 0
        # quick tier: a fixed number of runs (the same work on any machine, however loaded; the time budget times six is
        # only a cap), unless a budget is given explicitly. thorough tier and explicit budgets: time-boxed.
        run_based = self.tier == "quick" and self.spec.get("quick_runs") and not os.environ.get("VERIF_BUDGET")
        for part in self.parts():
            cfgs = part["configs"][self.tier]
            per_cfg = budget * part.get("share", 1.0) / len(cfgs)
            for cfg in cfgs:
                deadline = time.time() + (per_cfg * 6 if run_based else per_cfg)
                maxruns = int(os.environ.get("VERIF_MAXRUNS", "0"))
                if run_based and not maxruns:
                    maxruns = max(1, int(self.spec["quick_runs"] * part.get("share", 1.0) / len(cfgs)))

                def jobs(part=part, cfg=cfg, base=base):
                    if part.get("jobs"):
                        for n, j in enumerate(part["jobs"](self, part, cfg)):
                            if maxruns and n >= maxruns and not part.get("enumerated"):
                                return
                            yield j
                        return
                    i = 0
                    while not maxruns or i < maxruns:
                        yield self.job_for(base + i, cfg, part)
                        i += 1

                fails = []
                known_hits = []
                open_findings = [f for f in load_findings() if f.get("status") == "open"]

                def on_result(r, cfg=cfg, fails=fails, part=part):
                    r.kv["config"] = cfg
                    r.kv["engine"] = part["engine"]
                    if is_failure(r):
                        if any(finding_matches(f, self.prop, result_class(r), result_msg(r)) for f in open_findings):
                            # an open known finding showing up again: keep a few for triage, never let it end the exploration
                            known_hits.append(r)
                            if len(known_hits) <= 3:
                                fails.append(r)
                            return False
                        fails.append(r)
                        fresh = [x for x in fails if x not in known_hits]
                        return len({result_class(x) for x in fresh}) >= int(os.environ.get('VERIF_MAX_CLASSES', 3)) or len(fresh) >= int(os.environ.get('VERIF_MAX_FAILS', 12))
                    return False

                rs = run_parallel(self.exes[(part["engine"], cfg)], jobs(), nw, deadline=deadline, on_result=on_result)
                self.results.extend(rs)
                self.failures.extend(fails)
                if part.get("jobs") and not fails and time.time() <= deadline:
                    self.exhaustive_parts = getattr(self, "exhaustive_parts", 0) + 1
                base += 10 ** 7

    def triage(self):
        """gate + minimise + replay file for each distinct failure class; known findings are named, not raised."""
        findings = load_findings()
        by_class = {}
        for r in self.failures:
            by_class.setdefault(result_class(r), []).append(r)
        work = []
        for cls, rs in sorted(by_class.items(), key=lambda kv: str(kv[0])):
            # one representative per class, plus (so that a known finding never hides a different violation of the same
            # class) up to two more whose own message no open finding of this property matches
            rs = sorted(rs, key=lambda x: len(x.kv.get("ops", "")) or 0)
            work.append((cls, rs[0]))
            others = [x for x in rs[1:] if not any(finding_matches(f, self.prop, cls, result_msg(x)) for f in findings)]
            if any(finding_matches(f, self.prop, cls, result_msg(rs[0])) for f in findings):
                work.extend((cls, x) for x in others[:2])
        for cls, r in work:
            cfg = r.kv["config"]
            eng = r.kv.get("engine", self.spec.get("engine"))
            w = Worker(self.exes[(eng, cfg)])
            try:
                verb, kv, body = r.cmd
                # gate 1: same seed twice -> same class and same event-log hash
                again = w.run(verb, kv, body)
                if str(cls).startswith("HANG.") and again.status in ("OK", "DISCARD", "VIOL"):
                    # the watchdog works on wall-clock time, the only thing here the simulator does not own: a run that ends when it is
                    # repeated was slowed down by the machine, not stuck. Inconclusive (a genuine hang does not end the second time either)
                    print("  note: %s seed=%s did not hang when repeated: inconclusive (machine load)" % (cls, kv.get("seed")))
                    continue
                if result_class(again) != cls or again.kv.get("hash") != r.kv.get("hash"):
                    self.machinery_error = "nondeterministic: seed %s class %s/%s hash %s/%s" % (kv.get("seed"), cls, result_class(again), r.kv.get("hash"), again.kv.get("hash"))
                    continue
                kv2 = dict(kv)
                kv2["emit_ops"] = 1
                full = w.run(verb, kv2, body)
                ops = full.ops or list(body or [])
                params = full.params
                used = 0
                exec_kv = {k: v for k, v in kv.items() if k not in ("seed", "emit_ops", "verbose")}
                exec_kv.update(params)
                if eng == "io":
                    ops = narrow_io(r, body)
                    full = w.run("exec", exec_kv, ops)
                    if result_class(full) != cls:
                        # narrowing to the single input did not reproduce the failure: keep the whole batch op
                        ops = list(body or [])
                        full = w.run("exec", exec_kv, ops)
                    full.ops = list(ops)

                refw = None
                if self.spec.get("reference_config"):
                    # the expectation is the log of the same ops on the reference build: recomputed for every candidate
                    refw = Worker(C.build_engine(eng, self.spec["reference_config"]))

                def execute(cand):
                    if refw:
                        ref = refw.run("exec", {k: v for k, v in exec_kv.items() if k != "expect"}, cand)
                        if ref.status != "OK":
                            return ref
                        exec_kv["expect"] = ref.kv.get("hash")
                    return w.run("exec", exec_kv, cand)
                if ops and eng != "io" and self.spec.get("minimise", True):
                    first = execute(ops)
                    if result_class(first) == cls and time.time() - self.t0 < float(os.environ.get("VERIF_TRIAGE_DEADLINE", 150)):
                        ops, used = minimise(execute, ops, cls, budget=int(os.environ.get("VERIF_MIN_BUDGET", 300)), classify=result_class)
                    final = execute(ops)
                else:
                    final = full
                if result_class(final) != cls:
                    final = full
                    ops = full.ops
                msg = result_msg(final)
                replay = {
                    "engine": eng, "property": self.prop, "config": cfg, "seed": kv.get("seed"), "params": params, "exec_kv": exec_kv, "ops": ops,
                    "expect": {"class": cls, "hash": final.kv.get("hash"), "msg": msg}, "minimisation_executions": used,
                }
                if self.extra_kv():
                    replay["exec_extra"] = self.extra_kv()
                # known finding?
                kf = None if os.environ.get("VERIF_IGNORE_KNOWN") else next((f for f in findings if finding_matches(f, self.prop, cls, msg)), None)
                if kf:
                    self.known_seen.append((kf, msg))
                    continue
                os.makedirs(REPLAYS, exist_ok=True)
                path = os.path.join(REPLAYS, "%s-%s-%s.json" % (self.prop, re.sub(r"[^A-Za-z0-9_.]", "_", str(cls))[:60], kv.get("seed")))
                json.dump(replay, open(path, "w"), indent=1)
                # gate 2: the replay file reproduces in a fresh process
                rc, rr = replay_file(path, quiet=True)
                if rc != 1:
                    self.machinery_error = "replay file %s does not reproduce in a fresh process (%s)" % (path, rr.status if rr else "?")
                    continue
                self.violations.append((cls, path, msg))
            finally:
                w.close()
                if 'refw' in locals() and refw:
                    refw.close()

    def canaries(self):
        """Open known findings: replay the canary, name the finding if it still reproduces.
        Fixed findings: their replay files are the regression corpus, executed first; one that fails again
        is reported as a violation like any other."""
        for f in load_findings():
            if f.get("property") != self.prop or not f.get("replay"):
                continue
            path = os.path.join(C.VERIF, f["replay"])
            if not os.path.exists(path):
                continue
            rc, rr = replay_file(path, quiet=True, exes=self.exes, prop=self.prop)
            if f.get("status") == "open":
                if rc == 1:
                    if not any(k is f for k, _ in self.known_seen):
                        self.known_seen.append((f, result_msg(rr)))
                else:
                    C.log("note: canary of %s no longer reproduces (%s): its quarantine rule is switched off for this run" % (f.get("id"), rr.status if rr else "?"))
                    if f.get("quarantine_kv"):
                        self.unquarantine[f["quarantine_kv"]] = 0
            else:
                self.regressions_run = getattr(self, "regressions_run", 0) + 1
                if rr is not None and is_failure(rr):
                    self.violations.append((result_class(rr), path, "regression of fixed finding %s: %s" % (f.get("id"), result_msg(rr))))

    def evidence(self):
        rs = self.results
        wall = time.time() - self.t0
        counters = {}
        status = {}
        sigs = set()
        hashes = set()
        for r in rs:
            status[r.status] = status.get(r.status, 0) + 1
            for k, v in r.counters.items():
                counters[k] = counters.get(k, 0) + v
            if r.kv.get("nontrivial") == "1":
                sigs.add((r.kv.get("sig"), r.kv.get("config")))
            hashes.add(r.kv.get("hash"))
        samples = []
        for r in rs[:400]:
            if r.kv.get("nontrivial") == "1" and len(samples) < 3:
                samples.append({"seed": r.cmd[1].get("seed"), "config": r.kv.get("config"), "params": r.params, "status": r.status, "ops_executed": r.kv.get("done"),
                                "hash": r.kv.get("hash"), "how_to_see_it": "./check gen %s %s" % (self.prop, r.cmd[1].get("seed"))})
        if not samples and rs:
            r = rs[0]
            samples.append({"seed": r.cmd[1].get("seed"), "status": r.status})
        run_s = max(wall - getattr(self, "build_s", 0), 1e-3)
        ev = {
            "property_id": self.prop, "tier": self.tier, "seed": self.master, "level": self.spec["level"],
            "coverage": {
                "evaluations": len(rs), "distinct_nontrivial": len(sigs), "rule": self.spec["rule"], "samples": samples,
                "runs_per_hour": int(len(rs) / run_s * 3600), "statuses": status, "distinct_event_log_hashes": len(hashes),
                "simulated_steps": counters.get(self.spec.get("sim_time_counter", "ops_done"), 0),
                "probes_and_fault_counts": {k: v for k, v in sorted(counters.items())},
                "configurations": self.spec["configs"][self.tier], "components": self.spec.get("components", {}),
                "known_findings_seen": [k.get("id") for k, _ in self.known_seen],
                "regression_replays_of_fixed_findings_executed": getattr(self, "regressions_run", 0),
                "build_s": round(getattr(self, "build_s", 0), 1),
                "enumerated_parts_completed": getattr(self, "exhaustive_parts", 0),
            },
            "assumptions": self.spec.get("assumptions", []), "wall_s": round(wall, 1), "violations": len(self.violations),
        }
        os.makedirs(EVIDENCE, exist_ok=True)
        json.dump(ev, open(os.path.join(EVIDENCE, self.prop + ".json"), "w"), indent=1)

    def run(self):
        self.build()
        self.canaries()
        self.explore()
        self.triage()
        self.evidence()
        st = {}
        for r in self.results:
            st[r.status] = st.get(r.status, 0) + 1
        C.log("%s %s: %d runs %s in %.1fs (build %.1fs)" % (self.prop, self.tier, len(self.results), st, time.time() - self.t0, self.build_s))
        shown = 0
        for r in self.results:
            if r.status not in ("OK", "VIOL") and shown < 5:
                shown += 1
                C.log("  note: %s seed=%s config=%s wall_ms=%s" % (r.status, r.cmd[1].get("seed"), r.kv.get("config"), r.wall_ms))
        for k, msg in self.known_seen:
            C.log("KNOWN-FINDING: property=%s %s [%s] %s" % (self.prop, k.get("id"), k.get("class"), k.get("what")))
        if self.machinery_error:
            C.log("MACHINERY ERROR:", self.machinery_error)
            return 2
        for cls, path, msg in self.violations:
            C.log("  class=%s %s" % (cls, msg[:600]))
            C.log("VIOLATION property=%s replay=%s" % (self.prop, path))
        return 1 if self.violations else 0


def narrow_io(r, body):
    """an IO batch op failed at some input: the replay is the same op restricted to that single input."""
    line = (body or [""])[0]
    tag = None
    if r.viol:
        tag = r.viol[0].get("op")
    if tag is None:
        ks = [l for l in r.lines if l.startswith("K ")]
        tag = ks[-1].split()[1] if ks else "0"
    toks = [t for t in line.split(" ") if not (t.startswith("from=") or t.startswith("to=") or t.startswith("first=") or t.startswith("count="))]
    if toks and toks[0] == "trunc":
        toks += ["from=%s" % tag, "to=%d" % (int(tag) + 1)]
    elif toks and toks[0] == "mut":
        toks += ["first=%s" % tag, "count=1"]
    return [" ".join(toks)]


def replay_file(path, quiet=False, exes=None, prop=None):
    """execute a replay file in a fresh worker process; 1 = reproduces, 0 = does not."""
    from .props import PROPS
    rp = json.load(open(path))
    prop = prop or rp["property"]
    spec = PROPS[prop]
    eng = rp.get("engine") or spec.get("engine") or spec["parts"][0]["engine"]
    cfg = rp.get("config") or "dbg"
    exe = (exes or {}).get((eng, cfg)) or C.build_engine(eng, cfg)
    w = Worker(exe)
    try:
        chk = Check(spec, prop, "quick", 0)
        if rp.get("exec_kv"):
            kv = dict(rp["exec_kv"])
            kv.setdefault("prop", prop)
        else:
            kv = {"prop": prop}
            kv.update(rp.get("params", {}))
            part_kv = spec.get("run_kv", {})
            for part in spec.get("parts", []):
                if part["engine"] == eng:
                    part_kv = part.get("run_kv", {})
            kv.update(part_kv)
        kv.update(chk.extra_kv())
        kv.update(rp.get("exec_extra") or {})
        if os.environ.get("VERIF_VERBOSE"):
            kv["verbose"] = 1
        if spec.get("reference_config") and "expect" in kv:
            refw = Worker(C.build_engine(eng, spec["reference_config"]))
            try:
                ref = refw.run("exec", {k: v for k, v in kv.items() if k != "expect"}, rp["ops"])
            finally:
                refw.close()
            if ref.status == "OK":
                kv["expect"] = ref.kv.get("hash")
        r = w.run("exec", kv, rp["ops"])
        r.kv["config"] = cfg
        r.kv["engine"] = eng
    finally:
        w.close()
    cls = result_class(r)
    ok = cls is not None and cls == rp["expect"]["class"]
    if not quiet:
        C.log("replay %s: status=%s class=%s expected=%s" % (path, r.status, cls, rp["expect"]["class"]))
        for t in r.trace[-(400 if os.environ.get("VERIF_VERBOSE") else 40):]:
            C.log("   ", t)
        if r.viol:
            C.log("   ", r.viol[0].get("msg"))
        for c in r.crash[:20]:
            C.log("   ", c)
        if ok:
            C.log("VIOLATION property=%s replay=%s" % (prop, path))
    return (1 if ok else 0), r
