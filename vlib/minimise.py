"""Minimisation of a failing history: ddmin over the op list, then integer shrinking of op arguments,
accepting a candidate only if the same oracle class fires. Generic over engines: a history is a list of
text ops 'name int int ...' executed by the engine's 'exec' command."""


def minimise(execute, ops, cls, budget=400, classify=None, seconds=45):
    """execute(ops) -> Result. Returns (ops, executions used)."""
    import time
    used = 0
    t_end = time.time() + seconds

    def test(cand):
        nonlocal used
        if time.time() > t_end:
            used = budget
            return False
        used += 1
        r = execute(cand)
        return r is not None and (classify(r) if classify else r.cls) == cls

    # truncate after the failing op first (cheap, big win)
    n = 2
    while len(ops) >= 2 and used < budget:
        chunk = max(1, len(ops) // n)
        reduced = False
        i = 0
        while i < len(ops) and used < budget:
            cand = ops[:i] + ops[i + chunk:]
            if cand and test(cand):
                ops = cand
                n = max(n - 1, 2)
                reduced = True
            else:
                i += chunk
        if not reduced:
            if chunk == 1:
                break
            n = min(len(ops), n * 2)
    # shrink integers
    changed = True
    while changed and used < budget:
        changed = False
        for i in range(len(ops)):
            toks = ops[i].split(" ")
            for j in range(1, len(toks)):
                try:
                    v = int(toks[j])
                except ValueError:
                    continue
                for nv in (0, 1, v // 2, v - 1 if v > 0 else v + 1):
                    if nv == v or abs(nv) >= abs(v) or used >= budget:
                        continue
                    cand_t = list(toks)
                    cand_t[j] = str(nv)
                    cand = ops[:i] + [" ".join(cand_t)] + ops[i + 1:]
                    if test(cand):
                        ops = cand
                        toks = cand_t
                        changed = True
                        break
    return ops, used
