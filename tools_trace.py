#!/usr/bin/env python3
import json,subprocess,sys
r=json.load(open(sys.argv[1]))
ops=r['ops']; p=r['params']
prop=sys.argv[2] if len(sys.argv)>2 else r['property']
cfg=r.get('config','dbg')
cmd=f"exec r1 prop={prop} verbose=1 "+" ".join(f"{k}={v}" for k,v in p.items())+f" body={len(ops)}\n"+"\n".join(ops)+"\nquit\n"
o=subprocess.run([f'/verif/.build/{cfg}/eng_{r["engine"]}/{r["engine"]}_engine'],input=cmd,text=True,capture_output=True).stdout
print("\n".join(l for l in o.split("\n") if l[:2] in("T ","V ","X ","R ")))
