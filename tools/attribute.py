#!/usr/bin/env python3
"""For every fix commit in /repo: build 'HEAD minus that fix' in a scratch worktree and see which of the
given replay files reproduce there. Used once to attach a regression replay to each fixed finding
(and as sensitivity evidence: each fixed defect, re-introduced alone, is caught).
usage: attribute.py <replay dir> [commit ...]"""
import glob
import json
import os
import subprocess
import sys

sys.path.insert(0, os.path.dirname(os.path.dirname(os.path.abspath(__file__))))
WT = "/tmp/wt_attr"
# reverting one of these alone conflicts with a later fix in the same lines: revert them together
TOGETHER = {"6f9ab19": ["ac7d46a"], "1563f46": ["c4f7886", "46c4289"], "25ddaca": ["ac7d46a", "6f9ab19"], "c4c8138": ["ac7d46a", "6f9ab19"], "0f8138a": ["4db53b3"]}


def sh(cmd):
    return subprocess.run(cmd, shell=True, stdout=subprocess.PIPE, stderr=subprocess.STDOUT, text=True)


def main():
    rdir = sys.argv[1]
    commits = sys.argv[2:] or sh("git -C /repo log --format=%h ee3964e..HEAD").stdout.split()
    out = {}
    for c in commits:
        sh("git -C /repo worktree remove --force %s" % WT)
        sh("rm -rf %s /tmp/wt_attr_build" % WT)
        print(sh("git -C /repo worktree add -f %s HEAD" % WT).stdout[-200:])
        bad = False
        for r in TOGETHER.get(c, []) + [c]:
            x = sh("git -C %s revert --no-edit %s" % (WT, r))
            if x.returncode != 0:
                print("REVERT CONFLICT", c, r, x.stdout[-400:])
                bad = True
                break
        if bad:
            continue
        env = dict(os.environ, VERIF_REPO=WT, VERIF_BUILD="/tmp/wt_attr_build")
        hits = []
        for f in sorted(glob.glob(os.path.join(rdir, "*.json"))):
            x = subprocess.run(["/verif/check", "replay", f], env=env, stdout=subprocess.PIPE, stderr=subprocess.STDOUT, text=True)
            if x.returncode == 1:
                hits.append(os.path.basename(f))
        out[c] = hits
        print(c, hits, flush=True)
    sh("git -C /repo worktree remove --force %s" % WT)
    sh("rm -rf %s /tmp/wt_attr_build" % WT)
    json.dump(out, open("/tmp/attribution.json", "w"), indent=1)


main()
