#!/usr/bin/env python3
"""Run checks against a changed copy of /repo (never /repo itself):
   sensitivity.py <patch file | revert:<commit>[,<commit>...]> <Cxx> [<Cxx> ...]   [--budget S] [--keep-replays DIR] [--tests]
A scratch worktree of /repo's HEAD is created under /tmp, the change applied, optionally the baseline
tests run (--tests), then the named checks run with VERIF_REPO / VERIF_BUILD pointing at the scratch copy.
Prints one line per check: DETECTED / MISSED. The scratch copy and its build output are removed."""
import os
import subprocess
import sys

WT = "/tmp/wt_sens_%d" % os.getpid()
BD = WT + "_build"


def sh(cmd, **kw):
    return subprocess.run(cmd, shell=True, stdout=subprocess.PIPE, stderr=subprocess.STDOUT, text=True, **kw)


def main():
    a = sys.argv[1:]
    budget = "30"
    keep = None
    tests = False
    if "--budget" in a:
        i = a.index("--budget")
        budget = a[i + 1]
        del a[i:i + 2]
    if "--keep-replays" in a:
        i = a.index("--keep-replays")
        keep = a[i + 1]
        del a[i:i + 2]
    if "--tests" in a:
        tests = True
        a.remove("--tests")
    change, props = a[0], a[1:]
    try:
        r = sh("git -C /repo worktree add -f %s HEAD" % WT)
        if r.returncode:
            print(r.stdout)
            return 2
        if change.startswith("revert:"):
            for c in change[7:].split(","):
                r = sh("git -C %s revert --no-edit %s" % (WT, c))
                if r.returncode:
                    print("revert failed", r.stdout[-500:])
                    return 2
        else:
            r = sh("git -C %s apply %s" % (WT, os.path.abspath(change)))
            if r.returncode:
                print("patch does not apply", r.stdout[-500:])
                return 2
        if tests:
            r = sh("cmake -G Ninja -S %s -B %s/base -DCMAKE_BUILD_TYPE=RelWithDebInfo >/dev/null && cmake --build %s/base >/dev/null && ctest --test-dir %s/base -j8 --timeout 900 | tail -3" % (WT, BD, BD, BD))
            print("baseline tests on the changed tree:", r.stdout.strip().replace("\n", " | "))
        env = dict(os.environ, VERIF_REPO=WT, VERIF_BUILD=BD, VERIF_BUDGET=budget, VERIF_REPLAYS=keep or (BD + "/replays"), VERIF_EVIDENCE=BD + "/evidence")
        rc_all = 0
        for p in props:
            r = subprocess.run(["/verif/check", p], env=env, stdout=subprocess.PIPE, stderr=subprocess.STDOUT, text=True)
            lines = [l for l in r.stdout.split("\n") if l.startswith("VIOLATION") or l.startswith("  class=") or l.startswith("MACHINERY")]
            verdict = "DETECTED" if r.returncode == 1 else ("MISSED" if r.returncode == 0 else "ERROR(rc=%d)" % r.returncode)
            summary = [l for l in r.stdout.split("\n") if " runs " in l]
            print("%s %s %s :: %s" % (p, verdict, os.path.basename(change), (summary[-1] if summary else "").strip()))
            for l in lines[:6]:
                print("    " + l[:260])
            if r.returncode not in (0, 1):
                print(r.stdout[-1500:])
            rc_all |= (r.returncode == 1)
        return 0 if rc_all else 1
    finally:
        sh("git -C /repo worktree remove --force %s" % WT)
        sh("rm -rf %s %s" % (WT, BD))


sys.exit(main())
