#!/bin/bash
# soak: run the named checks with a long budget against /repo (used from `vp run`); prints only summaries
# usage: tools/soak.sh <budget seconds> <tier> <Cxx>...
b=$1; shift
tier=$1; shift
export VERIF_BUILD=${VERIF_BUILD:-$PWD/.build} VERIF_REPLAYS=$PWD/replays VERIF_EVIDENCE=$PWD/evidence_soak VERIF_TRIAGE_DEADLINE=$((b + 600))
for p in "$@"; do
  VERIF_BUDGET=$b VERIF_SEED=${VERIF_SEED:-77} VERIF_WORKERS=${VERIF_WORKERS:-7} ./check $p --tier $tier 2>&1 | grep -v "note:" | tail -8 | cut -c1-700
  for f in replays/$p-*.json; do [ -f "$f" ] && echo "REPLAY $f" && python3 -c "
import json,sys;d=json.load(open('$f'));print(d['config'],d['exec_kv']);[print(o) for o in d['ops']]"; done
done
