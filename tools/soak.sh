#!/bin/bash
# soak: run the named checks with a long budget against /repo (used from `vp run`); prints only summaries
# usage: tools/soak.sh <budget seconds> <Cxx>...
b=$1; shift
export VERIF_BUILD=${VERIF_BUILD:-$PWD/.build} VERIF_REPLAYS=$PWD/replays VERIF_EVIDENCE=$PWD/evidence_soak
for p in "$@"; do
  VERIF_BUDGET=$b VERIF_SEED=${VERIF_SEED:-77} VERIF_WORKERS=${VERIF_WORKERS:-7} ./check $p 2>&1 | grep -v "note:" | tail -8 | cut -c1-600
done
