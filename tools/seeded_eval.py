#!/usr/bin/env python3
"""Confirm a seeded change delivered by a sub-agent and run our checks against it.
   seeded_eval.py <seed id> <worktree> <outdir> <property> [extra check ids...]
1. in the agent's scratch worktree: demo fails WITH the change, passes WITHOUT it; the 82 baseline tests pass WITH it
2. copies patch.diff / demo / notes to /verif/seeded/<seed id>/
3. applies the patch to /repo, runs the quick checks, undoes it (git -C /repo checkout -- .)
4. writes meta.json"""
import json
import os
import shutil
import subprocess
import sys
import time


def sh(cmd, **kw):
    return subprocess.run(cmd, shell=True, stdout=subprocess.PIPE, stderr=subprocess.STDOUT, text=True, **kw)


def main():
    sid, wt, out, prop = sys.argv[1:5]
    checks = [prop] + sys.argv[5:]
    dst = "/verif/seeded/%s" % sid
    os.makedirs(dst, exist_ok=True)
    meta = {"id": sid, "breaks_property": prop, "ran": []}
    patch = os.path.join(out, "patch.diff")
    # 1. confirm in the scratch worktree
    extra = "-DBUILD_EXECUTOR=ON" if prop == "C19" else ""
    build = "cmake -G Ninja -S %s -B %s/_b -DCMAKE_BUILD_TYPE=RelWithDebInfo %s >/dev/null && cmake --build %s/_b >/dev/null" % (wt, wt, extra, wt)
    sh("git -C %s checkout -- . && git -C %s apply %s" % (wt, wt, patch))
    r = sh(build + " && ctest --test-dir %s/_b -j8 --timeout 900 | tail -3" % wt)
    meta["tests_with_change"] = r.stdout.strip().split("\n")[-3:] if r.stdout else []
    tests_ok = "100% tests passed" in r.stdout
    d1 = sh("bash %s/build_and_run.sh %s" % (out, wt), timeout=600)
    sh("git -C %s checkout -- ." % wt)
    sh(build)
    d0 = sh("bash %s/build_and_run.sh %s" % (out, wt), timeout=600)
    sh("git -C %s apply %s" % (wt, patch))
    meta["demo_exit_with_change"] = d1.returncode
    meta["demo_exit_without_change"] = d0.returncode
    meta["confirmed"] = bool(tests_ok and d1.returncode != 0 and d0.returncode == 0)
    print("confirm: tests_ok=%s demo with=%d without=%d" % (tests_ok, d1.returncode, d0.returncode), flush=True)
    for f in os.listdir(out):
        if f not in ("prompt.txt", "property.txt") and os.path.isfile(os.path.join(out, f)) and os.path.getsize(os.path.join(out, f)) < 200000:
            shutil.copy(os.path.join(out, f), dst)
    # 3. our checks against /repo with the change applied (or, with SEEDED_EVAL_SCRATCH=1, against a fresh scratch worktree of
    #    /repo's HEAD with its own build directory, so that other checks can use /repo at the same time)
    scratch = os.environ.get("SEEDED_EVAL_SCRATCH") == "1"
    target = "/repo"
    if scratch:
        target = "/tmp/seedeval/%s" % sid
        sh("git -C /repo worktree remove --force %s" % target)
        sh("mkdir -p /tmp/seedeval && git -C /repo worktree add --detach %s HEAD" % target)
        os.environ["VERIF_REPO"] = target
        os.environ["VERIF_BUILD"] = "/tmp/seedeval/%s_build" % sid
        meta["evaluated_in"] = "scratch worktree of /repo HEAD (VERIF_REPO/VERIF_BUILD)"
    st = sh("git -C %s status --porcelain --untracked-files=no" % target)
    if st.stdout.strip():
        print("refusing: %s has local modifications" % target)
        return 2
    try:
        a = sh("git -C %s apply %s" % (target, patch))
        if a.returncode:
            print("patch does not apply to /repo:", a.stdout)
            meta["applies_to_repo"] = False
        else:
            for c in checks:
                t0 = time.time()
                env = dict(os.environ, VERIF_REPLAYS="/tmp/seeded_replays/%s" % sid, VERIF_EVIDENCE="/tmp/seeded_evidence")
                r = subprocess.run(["/verif/check", c], env=env, stdout=subprocess.PIPE, stderr=subprocess.STDOUT, text=True)
                lines = [l[:300] for l in r.stdout.split("\n") if l.startswith("  class=") or l.startswith("VIOLATION") or " runs " in l]
                verdict = "DETECTED" if r.returncode == 1 else ("missed" if r.returncode == 0 else "error rc=%d" % r.returncode)
                meta["ran"].append({"cmd": "./check %s --tier quick" % c, "verdict": verdict, "wall_s": round(time.time() - t0, 1), "output": lines[:8]})
                print(c, verdict, lines[:3], flush=True)
    finally:
        if scratch:
            sh("git -C /repo worktree remove --force %s; rm -rf /tmp/seedeval/%s_build" % (target, sid))
        else:
            sh("git -C /repo checkout -- .")
    notes = os.path.join(out, "NOTES.md")
    meta["needs_to_manifest"] = open(notes).read()[:1500] if os.path.exists(notes) else ""
    json.dump(meta, open(os.path.join(dst, "meta.json"), "w"), indent=1)
    return 0


sys.exit(main())
