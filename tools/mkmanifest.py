#!/usr/bin/env python3
"""Regenerates /verif/MANIFEST.json from vlib/props.py (claimed checks) and the texts below."""
import json, os, sys
sys.path.insert(0, os.path.dirname(os.path.dirname(os.path.abspath(__file__))))
from vlib.props import PROPS

TEXT = {
 "C07": ("Seeded search over API histories of the real sat_core (+ bound theories) under seeded heap layouts; every reported literal value, every false verdict and every recorded (learnt / lemma / next) clause is checked for entailment by z3 against an independent meaning of everything created, and complete assignments are evaluated directly. Sampling, not proof.", "3.1, 4 (C07)"),
 "C08": ("Seeded assume/pop/next/check histories over a network mixing LRA, IDL, RDL and OV; after every rollback the difference-logic distances are compared with a Floyd-Warshall recomputation from the currently assigned literals, LRA bounds with the snapshot taken when the level was left (same assigned set), OV domains with the value literals, and no reported value may outlive its justification (z3).", "3.1, 4 (C08)"),
 "C09": ("Seeded LRA histories: after every successful propagation the reported values must satisfy every asserted relation (epsilon-aware, exact rationals), every defining equation and the reported bounds; bounds must contain every real solution (z3); every lemma/conflict clause mentioning an LRA literal must be valid (z3); a false verdict needs real infeasibility.", "3.1, 4 (C09)"),
 "C10": ("Seeded IDL/RDL histories incl. matrix growth and several constraints per pair: all-pairs distances compared with an exact Floyd-Warshall reference after every op and rollback, negative cycles must be detected, decided-but-unpropagated literals are flagged, explanation clauses checked by z3.", "3.1, 4 (C10)"),
 "C11": ("Seeded interleavings of relation requests (<,<=,=,>=,>) with root-level tightening and search: a TRUE/FALSE shortcut or a shared literal must be equivalent to the requested relation under what was created (z3), and for the rest of the history every value/verdict/model is judged with the intended relation as the literal's meaning.", "3.1, 4 (C11)"),
 "C12": ("Seeded requests over the matrix relation x {c*x+k, c*(x-y)+k} x variable order x sign for IDL and RDL in random consistent states, judged like C11; bounds/distance/equates on expressions compared with the same function of the variable-level distances.", "3.1, 4 (C12)"),
 "C13": ("Seeded construction orders of eq/conj/disj/at-most-one/exactly-one (duplicates, complements, root-decided arguments, cache hits, pairwise and product encodings) followed by exhaustive sweeps of the argument space through assume: the returned literal must be equivalent (eq/conj/disj) resp. force the cardinality and exclude nothing (amo/exo).", "3.1, 4 (C13)"),
 "C01": ("Seeded search over generated RIDDLE problems (constraints, objects, goals/facts with rules, state variables, resources) delivered as read()/solve()/pop-to-root histories under K seeded heap layouts and (thorough) the h_max/h_add x CHECK_INCONSISTENCIES x Debug/Release builds; every reported solution is evaluated with exact rational+epsilon arithmetic against the harness's own AST (top-level constraints, formula arguments, rule bodies of active goals with their sub-goals taken from the causal graph).", "3.2, 4 (C01)"),
 "C02": ("Same histories; every negative verdict (solve()==false, unsolvable/inconsistency exception from read()) on the constraint-only fragment is cross-examined with z3 on the harness's AST (a model is a witness that the verdict is wrong); most problems are planted around a hidden assignment so that they are satisfiable by a small margin. Every history's problem is read again by fresh solvers in equivalent formulations (constraints reordered, tautology, dead disjunct, statements reversed, a fact stated twice) and, when solved, without one of its constraints: verdicts must agree / a relaxation stays solvable (a positive verdict counts only when its solution checks). One problem in four carries a block that is solvable by construction through unification only and is also handed to a solver alone (planted plan).", "3.2, 4 (C02), 10.1, 10.8, 10.11"),
 "C03": ("Same histories, causal profile: from the listener-reported causal graph every atom whose flaw is active must be active (goal: activation applied, sub-goals in the plan) or unified with an active atom of the same predicate with equal arguments; the support graph (sub-goal + unification edges) must be acyclic.", "3.2, 4 (C03)"),
 "C04": ("Same histories, state-variable profile (fixed and variable tau, zero-length atoms, equal endpoints): pairwise overlap test on exact intervals of the active atoms per instance, and the extracted timeline must list exactly the covering atoms, at most one per segment.", "3.2, 4 (C04)"),
 "C05": ("Same histories, reusable-resource profile (capacities incl. 0, amounts at/above/below capacity, durations incl. 0): exact usage at every start pulse <= capacity; extracted timeline atoms and usage per segment recomputed.", "3.2, 4 (C05)"),
 "C06": ("Same histories, temporal profile (facts and goals on plain Interval/Impulse predicates, state variables, resources): origin <= start <= end <= horizon, duration == end-start >= 0, origin <= at <= horizon for every active atom.", "3.2, 4 (C06)"),
 "C17": ("Same histories, object profile (class hierarchies with constructors chaining to the super class, object fields, instances created before/after variables and across read() units, enum unions): each object/enum variable takes exactly one value inside the domain it was declared with, constructor arguments are read back from the fields, constraints through field access hold for the chosen instances.", "3.2, 4 (C17)"),
 "C18": ("Input faults enumerated: for every file of the corpus (the repository's examples up to a size limit plus three built-in token-rich programs) the stream feeding the real lexer/parser ends, or fails, at EVERY byte offset, and the full reader gets every prefix; seeded byte mutations on top. Outcome classification only: returned or std::exception = fine; signal, abort, failed assertion, alien exception or no answer within 2 s CPU = violation. Plus seeded valid programs (PLAN engine, borrowing the workload profiles of the other planner properties; the solver is torn down at the end; a run stuck inside read() is a hang) and valid API histories (NET engine) on assert-enabled builds (thorough: ASan+UBSan) where any abnormal termination is a violation.", "3.5, 4 (C18), 10.8, 10.11"),
 "C19": ("Discrete-event simulation of plan execution: the real executor ticks through solved generated plans while a seeded client delays starts/ends from inside the callbacks, reports failures (also from adaptive scripts: delay an end, wait until that atom has ended, then report another atom as failed) and (opt-in) adds late requirements; dispatch-history invariants (exactly-once start/end of active atoms, never early, delays honoured, time step, frozen past) are checked on the recorded callback history and the exact solution checker of PLAN re-validates the plan after every adaptation.", "3.3, 4 (C19)"),
 "C20": ("The PARALLELIZE build with the real thread pool runs under a scheduler that owns every pthread synchronisation point: seeded search over interleavings, pool sizes and legal-but-unusual behaviours (spurious wake-ups, late workers); every schedule must reproduce the observation log of the sequential build (verdicts, literal values, values and bounds after every call, set of recorded clauses); a vector-clock happens-before detector fed by compiler instrumentation reports unsynchronised accesses whether or not they collide; no runnable thread = lost wake-up / deadlock. A share of the schedules runs two caller threads at once, each with a network and pool of its own, on the same history: both must reproduce the sequential log.", "3.4, 4 (C20), 10.11"),
 "C14": ("Seeded object-variable histories (domains 1-5 over a shared pool, both creation forms, equalities between all pairs, assume/pop and sweeps): exactly-one, domain == not-excluded values, equality literal <=> same value, disjoint domains never equal; verdicts judged by z3.", "3.1, 4 (C14)"),
}
TECH = "deterministic simulation: seeded API-history + heap-layout search with reference-model oracles (z3 / Floyd-Warshall), ddmin-minimised replay files"
TECH_BY_ENGINE = {"io": "deterministic fault injection: enumerated EOF / stream-failure at every byte of the corpus + seeded byte mutations, outcome classification in forked children; seeded valid programs/histories on assert and sanitizer builds",
                  "exec": "deterministic discrete-event simulation of execution: seeded tick/delay/failure histories, callback-history invariants + exact plan re-validation, ddmin-minimised replay files",
                  "par": "deterministic thread-schedule simulation: pthread interposition with a seeded baton scheduler, happens-before race detector on compiler instrumentation, comparison with the sequential build"}
TECH_PLAN = "deterministic simulation: seeded problem + read/solve-history + heap-layout (+ build configuration) search, exact reference evaluator and z3 as oracles, ddmin-minimised replay files"
NOTES = {"io": "Trusted: the classification of process outcomes by the worker supervisor; the corpus is the repository's examples (size-limited in the quick tier) plus three built-in programs; sampling for mutations and for valid programs/histories.",
         "exec": "Trusted: the harness's reading of the executor callbacks and of the public solver API; an execution_exception is a legal outcome; LA temporal network only; two open known findings are quarantined (KF-X1, KF-X2).",
         "par": "Trusted: the scheduler's model of mutexes/condition variables (POSIX semantics incl. spurious wake-ups); the race detector sees instrumented code only; sampling of schedules, not enumeration."}
NOTE = "Trusted: z3 4.8.12 verdicts, GMP arithmetic, the harness's own meaning of each created construct; histories respect the documented API preconditions; sampling gives evidence, not proof."

NA = [
 {"property_id": "C15", "reason": "pure value arithmetic: no schedule, clock, I/O, fault, rollback or shared state can influence the result, so only input generation (property-based testing) could decide it, not deterministic simulation"},
 {"property_id": "C16", "reason": "the reader is a pure function of the program text (whole stream slurped, no layout or history dependence); deciding it means generating programs against a reference grammar, not simulating; its only fault surface, EOF/truncation, is covered by C18"},
]
PENDING = "engine under construction; not claimed until its check is built and audited (see DESIGN.md)"

def main():
    checks = []
    for p in sorted(PROPS):
        spec = PROPS[p]
        text, ref = TEXT.get(p, (spec.get("text", ""), spec.get("design_ref", "")))
        checks.append({"property_id": p, "quick_cmd": "./check %s --tier quick" % p, "thorough_cmd": "./check %s --tier thorough" % p,
                       "evidence_file": "evidence/%s.json" % p, "replay_cmd_template": "./check replay {path}", "engine": spec["engine"],
                       "level_claimed": {"category": spec["level"], "text": text, "design_ref": ref},
                       "level_note": spec.get("level_note", NOTES.get(spec["engine"], NOTE)), "technique": spec.get("technique", TECH_BY_ENGINE.get(spec["engine"], TECH_PLAN if spec["engine"] == "plan" else TECH))})
    na = list(NA)
    for i in range(1, 21):
        p = "C%02d" % i
        if p not in PROPS and p not in ("C15", "C16"):
            na.append({"property_id": p, "reason": PENDING})
    commits = os.popen("git -C /repo log --format=%H --grep='^verif hook'").read().split()
    m = {"version": 1, "setup_cmd": "./check prebuild",
         "hooks": {"guard": "PSTLAB_ORATIO_VERIF", "enable": "checks configure /repo with -DCMAKE_CXX_FLAGS=-DPSTLAB_ORATIO_VERIF (vlib/common.py build_repo)",
                   "baseline_off_cmd": "cmake -G Ninja -S /repo -B /verif/.build/baseline -DCMAKE_BUILD_TYPE=RelWithDebInfo >/dev/null && cmake --build /verif/.build/baseline >/dev/null && ctest --test-dir /verif/.build/baseline -j8 --timeout 900",
                   "source_commits": commits, "add_only": True},
         "engines": [{"name": "io", "path": "sim/io", "serves_properties": ["C18"], "kind_free_text": "input faults against lexer/parser/reader; with plan and net parts for valid use"},
                     {"name": "exec", "path": "sim/exec", "serves_properties": ["C19"], "kind_free_text": "discrete-event simulation of the executor with a simulated client and clock"},
                     {"name": "par", "path": "sim/par", "serves_properties": ["C20"], "kind_free_text": "pthread-interposing deterministic scheduler + happens-before race detector over the PARALLELIZE build"},
                     {"name": "plan", "path": "sim/plan", "serves_properties": [p for p in sorted(PROPS) if PROPS[p]["engine"] == "plan"], "kind_free_text": "whole planner under read/solve histories and seeded heap layouts: generated RIDDLE problems, exact evaluator + z3"},
                     {"name": "net", "path": "sim/net", "serves_properties": [p for p in sorted(PROPS) if PROPS[p]["engine"] == "net"], "kind_free_text": "constraint network as a backtrackable store: seeded API histories, z3 + Floyd-Warshall reference"}],
         "checks": checks, "not_applicable": na,
         "notes": "known_findings.json lists fixed findings (regression replays under findings/) and open ones; tools/sensitivity.py runs checks against a changed scratch copy of /repo."}
    json.dump(m, open(os.path.join(os.path.dirname(os.path.dirname(os.path.abspath(__file__))), "MANIFEST.json"), "w"), indent=1)

main()
