// Diagnosis tool (not a registered check): runs the planner on one RIDDLE file and prints every problem clause (hook H3),
// every recorded clause (hook H1), every flaw/resolver with its literals, and the LRA assertion/expression tables.
// audit.py replays that stream against z3: a recorded clause that does not follow from the problem clauses, the LRA
// meaning of the assertion literals and the pairwise resource/state-variable semantics is reported, and
// 'is literal X possible at all' questions come with an unsat core over the problem clauses. This is how KF-37 was located.
// Build: see run.sh
#include "solver.h"
#include "solver_listener.h"
#include "flaw.h"
#include "resolver.h"
#include "verif_hooks.h"
#include "lra_theory.h"
#include "lra_constraint.h"
#include <iostream>
#include <fstream>
#include <sstream>
using namespace ratio;
struct L : public solver_listener
{
  L(solver &s) : solver_listener(s) {}
  void flaw_created(const flaw &f) override { std::cout << "FLAW phi=" << to_string(f.get_phi()) << " " << f.get_data() << std::endl; }
  void resolver_created(const resolver &r) override { std::cout << "  RES rho=" << to_string(r.get_rho()) << " of " << to_string(r.get_effect().get_phi()) << " " << r.get_data() << std::endl; }
  void current_flaw(const flaw &f) override { std::cout << "CUR flaw " << to_string(f.get_phi()) << std::endl; }
  void current_resolver(const resolver &r) override { std::cout << "CUR res " << to_string(r.get_rho()) << std::endl; }
  void causal_link_added(const flaw &f, const resolver &r) override { std::cout << "  LINK " << to_string(r.get_rho()) << " -> " << to_string(f.get_phi()) << std::endl; }
};
static void cl(const smt::sat_core &, const std::vector<smt::lit> &c)
{
  std::cout << "CL {";
  for (auto &l : c) std::cout << " " << to_string(l);
  std::cout << " }" << std::endl;
}
static void rec(const smt::sat_core &s, const std::vector<smt::lit> &c)
{
  std::cout << "REC@" << s.decision_level() << " {";
  for (auto &l : c) std::cout << " " << to_string(l);
  std::cout << " }" << std::endl;
}
int main(int argc, char **argv)
{
  solver s; L l(s);
  smt::verif::on_record = rec;
  smt::verif::on_new_clause = cl;
  s.init();
  std::ifstream in(argv[1]); std::stringstream ss; ss << in.rdbuf();
  try { s.read(ss.str());
    auto &lra = s.get_lra_theory();
    for (auto &kv : lra.s_asrts) std::cout << "ASRT " << kv.first << " -> " << to_string(kv.second) << std::endl;
    for (auto &kv : lra.exprs) std::cout << "EXPR " << kv.first << " -> x" << kv.second << std::endl;
    bool r = s.solve(); std::cout << "solve=" << r << std::endl;
    for (auto &kv : lra.s_asrts) std::cout << "ASRT " << kv.first << " -> " << to_string(kv.second) << std::endl;
    for (auto &kv : lra.exprs) std::cout << "EXPR " << kv.first << " -> x" << kv.second << std::endl;
  }
  catch (const std::exception &e) { std::cout << "EXC " << e.what() << std::endl; }
}
