import re,sys
from z3 import *
lines=open(sys.argv[1]).read().split('\n')
asrt={}; expr={}
for ln in lines:
    m=re.match(r'ASRT (x\d+) (<=|>=) (.*) -> (¬?b\d+)$',ln)
    if m: asrt[m.group(4)]=(m.group(1),m.group(2),m.group(3))
    m=re.match(r'EXPR (.*) -> (x\d+)$',ln)
    if m and m.group(1).strip()!=m.group(2): expr.setdefault(m.group(2),m.group(1))
X={}
def xv(n):
    if n not in X: X[n]=Real(n)
    return X[n]
B={}
def bv(n):
    if n not in B: B[n]=Bool(n)
    return B[n]
def lit(t):
    t=t.strip()
    neg=t.startswith('¬')
    v=t.lstrip('¬')
    e=bv(v)
    if v=='b0': e=BoolVal(False)
    return Not(e) if neg else e
def parse_lin(s):
    s=s.replace(' ','')
    terms=re.findall(r'([+-]?)(\d+(?:/\d+)?\*)?(x\d+)|([+-]?\d+(?:/\d+)?)(?!\*)',s)
    tot=RealVal(0)
    for sg,co,v,k in terms:
        if v:
            c=Q(*map(int,(co[:-1].split('/')+['1'])[:2])) if co else RealVal(1)
            if sg=='-': c=-c
            tot=tot+c*xv(v)
        elif k:
            kk=k.split('/')
            tot=tot+Q(int(kk[0]),int(kk[1]) if len(kk)>1 else 1)
    return tot
def const(c):
    c=c.strip()
    m=re.match(r'^(-?\d+(?:/\d+)?)(?: ([+-]) (\d+(?:/\d+)?)?ε)?$',c)
    if not m: raise Exception('const '+c)
    kk=m.group(1).split('/')
    r=Q(int(kk[0]),int(kk[1]) if len(kk)>1 else 1)
    eps=0
    if m.group(2): eps=1 if m.group(2)=='+' else -1
    return r,eps
s=Solver()
for x,l in expr.items():
    s.add(xv(x)==parse_lin(l))
for b,(x,op,c) in asrt.items():
    r,eps=const(c)
    if op=='<=': f = xv(x)<r if eps<0 else xv(x)<=r
    else: f = xv(x)>r if eps>0 else xv(x)>=r
    s.add(lit(b)==f)
# RR semantics: for every rr-flaw ever created over two atoms: both active -> one of the two orderings
pairs={}
for ln in lines:
    m=re.search(r'"type":"order", "rho":"(¬?b\d+)", "before_sigma":(\d+), "after_sigma":(\d+)',ln)
    if m:
        a,b=int(m.group(2)),int(m.group(3))
        pairs.setdefault((min(a,b),max(a,b)),set()).add(m.group(1))
for (a,b),rs in pairs.items():
    s.add(Or([Not(bv('b%d'%a)),Not(bv('b%d'%b))]+[lit(r) for r in rs]))
print('rr pairs',len(pairs))
n=0
for i,ln in enumerate(lines):
    m=re.match(r'(CL|REC@\d+) \{(.*)\}',ln)
    if not m: continue
    ls=[lit(t) for t in m.group(2).split()]
    cl=Or(ls) if ls else BoolVal(False)
    if m.group(1)=='CL':
        s.add(cl)
    else:
        s.push(); s.add(Not(cl)); r=s.check(); s.pop()
        n+=1
        if r!=unsat:
            print('NOT ENTAILED line',i,ln,r)
        s.add(cl)
print('checked',n,'recorded clauses')
