#!/bin/bash
# usage: tools/clause_audit/run.sh <file.rddl>     (needs ./check prebuild or any check run before: uses .build/dbg)
set -e
HERE="$(cd "$(dirname "$0")" && pwd)"; V="$(cd "$HERE/../.." && pwd)"; R="${VERIF_REPO:-/repo}"; B="$V/.build/dbg"
INC=""; for d in smt smt/arith smt/arith/lra smt/arith/dl smt/ov smt/json smt/concurrent riddle core solver solver/flaws solver/types solver/heuristics; do INC="$INC -I$R/$d"; done
for d in smt smt/json smt/concurrent riddle core solver; do INC="$INC -I$B/$d"; done
OUT="$(mktemp -d)"; trap 'rm -rf "$OUT"' EXIT
g++ -std=c++17 -g -O0 -fno-access-control -DBUILD_LISTENERS -DPSTLAB_ORATIO_VERIF $INC "$HERE/driver.cpp" -o "$OUT/driver" -L"$B/lib" -lsolver -lcore -lriddle -lsmt -ljson
LD_LIBRARY_PATH="$B/lib" "$OUT/driver" "$1" > "$OUT/trace" 2>&1 || true
grep "^solve=\|^EXC" "$OUT/trace" || true
python3-vt "$HERE/audit.py" "$OUT/trace"
