// Seeded generator of PLAN problems (as integer ops, see build.h). Profiles per property bias the mix.
#pragma once
#include "../core/common.h"
#include <string>
#include <vector>

namespace plan
{
  using sim::Op;
  using sim::Rng;

  inline void g_lin(Rng &r, Op &op, int maxterms, int kmax)
  {
    long n = r.range(0, maxterms);
    op.a.push_back(n);
    for (int i = 0; i < 3; ++i) // always three term slots so that shrinking n keeps positions stable
    {
      long num = r.chance(2, 3) ? (r.chance(3, 4) ? 1 : -1) : r.range(-4, 4);
      op.a.push_back(num == 0 ? 1 : num);
      op.a.push_back(r.chance(4, 5) ? 0 : static_cast<long>(r.below(4)));
      op.a.push_back(static_cast<long>(r.below(24)));
    }
    op.a.push_back(r.range(-kmax, kmax));
    op.a.push_back(r.chance(4, 5) ? 0 : static_cast<long>(r.below(4)));
  }
  inline void g_rel(Rng &r, Op &op, int kmax)
  {
    op.a.push_back(static_cast<long>(r.chance(1, 8) ? 5 : r.below(5)));
    g_lin(r, op, 2, kmax);
    g_lin(r, op, r.chance(1, 2) ? 0 : 1, kmax);
  }
  inline void g_args(Rng &r, Op &op, int kmax)
  {
    op.a.push_back(static_cast<long>(r.below(32)));
    for (int i = 0; i < 5; ++i)
      g_lin(r, op, r.chance(2, 3) ? 0 : 1, kmax);
  }

  inline Op g_op(Rng &r, const std::string &name)
  {
    Op op;
    op.name = name;
    const int K = 8;
    if (name == "real")
      op.a = {static_cast<long>(r.below(6))}; // 5: declared `int` (the reader makes it an arithmetic variable of type int; no integrality is enforced or assumed)
    else if (name == "class")
      op.a = {static_cast<long>(r.below(4)), static_cast<long>(r.below(3)), static_cast<long>(r.below(5)), static_cast<long>(r.chance(1, 3) ? 1 : 0), 0, static_cast<long>(r.chance(1, 2) ? r.below(16) : 0)};
    else if (name == "inst")
    {
      op.a.push_back(static_cast<long>(r.below(6)));
      for (int i = 0; i < 6; ++i)
      {
        op.a.push_back(r.range(0, 6));
        op.a.push_back(r.chance(4, 5) ? 0 : 1);
      }
      for (int i = 0; i < 3; ++i)
        op.a.push_back(static_cast<long>(r.below(8)));
    }
    else if (name == "ovar" || name == "svinst")
      op.a = {static_cast<long>(r.below(6)), static_cast<long>(r.below(6))};
    else if (name == "mode")
      op.a = {static_cast<long>(r.chance(1, 2) ? 1 : (r.chance(3, 4) ? 2 : 0))};
    else if (name == "enumt")
      op.a = {static_cast<long>(r.below(3)), static_cast<long>(r.below(4))};
    else if (name == "enumv")
      op.a = {static_cast<long>(r.below(3))};
    else if (name == "rel")
    {
      g_rel(r, op, K);
      op.a.push_back(static_cast<long>(r.below(3)));
      op.a.push_back(static_cast<long>(r.below(8)));
    }
    else if (name == "bassert")
      op.a = {static_cast<long>(r.below(2)), static_cast<long>(r.below(8)), static_cast<long>(r.below(8))};
    else if (name == "logic")
    {
      op.a.push_back(static_cast<long>(r.below(6)));
      op.a.push_back(static_cast<long>(r.below(2)));
      for (int i = 0; i < 3; ++i)
      {
        op.a.push_back(static_cast<long>(r.below(32)));
        g_rel(r, op, K);
      }
      op.a.push_back(static_cast<long>(r.below(16)));
      op.a.push_back(static_cast<long>(r.below(64)));
      op.a.push_back(static_cast<long>(r.below(8)));
    }
    else if (name == "oeq")
      op.a = {static_cast<long>(r.below(2)), static_cast<long>(r.below(16)), static_cast<long>(r.below(16)), static_cast<long>(r.below(8)), static_cast<long>(r.below(2))};
    else if (name == "eeq")
      op.a = {static_cast<long>(r.below(2)), static_cast<long>(r.below(4)), static_cast<long>(r.below(6)), static_cast<long>(r.below(8))};
    else if (name == "pred")
      op.a = {static_cast<long>(r.chance(1, 2) ? 0 : r.below(3)), static_cast<long>(r.below(3))};
    else if (name == "tpred") // a temporal predicate (Interval or Impulse)
    {
      op.name = "pred";
      op.a = {static_cast<long>(1 + r.below(2)), static_cast<long>(r.below(3))};
    }
    else if (name == "cpred")
      op.a = {static_cast<long>(r.below(4)), static_cast<long>(r.chance(1, 4) ? 0 : 1 + r.below(2)), static_cast<long>(r.below(2))};
    else if (name == "r_rel")
    {
      op.a.push_back(static_cast<long>(r.below(8)));
      g_rel(r, op, K);
    }
    else if (name == "r_goal")
    {
      long p = static_cast<long>(r.below(4));
      long q = r.chance(1, 16) ? static_cast<long>(r.below(p + 1)) : p + 1 + static_cast<long>(r.below(2)); // mostly "later" predicates: bounded depth
      op.a = {p, q};
      g_args(r, op, K);
    }
    else if (name == "goal" || name == "fact")
    {
      op.a = {static_cast<long>(r.below(8)), static_cast<long>(r.below(42))}; // (scope / 7) % 3 == 0: an object variable as scope, when there is one
      g_args(r, op, K);
    }
    else if (name == "xorn")
      op.a = {static_cast<long>(r.below(4)), static_cast<long>(r.below(1000))};
    else if (name == "r_mul")
      op.a = {static_cast<long>(r.below(4)), static_cast<long>(r.below(3)), static_cast<long>(r.below(8)), static_cast<long>(r.below(8)), static_cast<long>(r.below(3))};
    else if (name == "r_logic")
    {
      op.a = {static_cast<long>(r.below(4))};
      g_rel(r, op, K);
      g_rel(r, op, K);
    }
    else if (name == "tp")
      op.a = {static_cast<long>(r.below(16))};
    else if (name == "tprel")
      op.a = {static_cast<long>(r.below(5)), static_cast<long>(r.below(5)), static_cast<long>(r.below(5)), static_cast<long>(r.below(36)), static_cast<long>(r.below(3)), static_cast<long>(r.below(8))};
    else if (name == "tpdisj")
    {
      op.a = {0, static_cast<long>(r.below(5)), static_cast<long>(r.below(5)), static_cast<long>(r.below(36)), static_cast<long>(r.below(36)), static_cast<long>(r.below(3)), static_cast<long>(r.chance(2, 3) ? 1 : 0), static_cast<long>(r.below(5)), static_cast<long>(r.below(5)),
              static_cast<long>(r.below(3)), static_cast<long>(r.below(3))};
      for (int i = 0; i < 18; ++i) // 2 branches x 3 relations x (kind and bound, first point, second point)
        op.a.push_back(static_cast<long>(i % 3 == 0 ? r.below(36) : r.below(5)));
    }
    else if (name == "epin")
      op.a = {static_cast<long>(r.below(3)), static_cast<long>(r.below(4)), static_cast<long>(r.below(42)), static_cast<long>(r.below(4))};
    else if (name == "ublock")
      op.a = {static_cast<long>(r.below(20)), r.range(-5, 6), static_cast<long>(r.below(7)), static_cast<long>(r.below(5)), static_cast<long>(r.below(4)), static_cast<long>(r.below(3)), static_cast<long>(r.below(2))};
    else if (name == "blockade")
      op.a = {static_cast<long>(r.below(4)), static_cast<long>(r.below(4))};
    else if (name == "touch")
      op.a = {static_cast<long>(r.below(6)), static_cast<long>(r.below(6)), static_cast<long>(r.chance(3, 4) ? 1 : r.below(4))};
    else if (name == "pin")
      op.a = {static_cast<long>(r.below(6)), static_cast<long>(r.below(5)), static_cast<long>(r.below(3)), static_cast<long>(r.below(192))}; // >= 96: the loose disjunct is indirect
    else if (name == "opred")
      op.a = {static_cast<long>(r.below(4)), static_cast<long>(r.below(3)), static_cast<long>(r.below(2))};
    else if (name == "spred")
      op.a = {static_cast<long>(r.below(4)), static_cast<long>(r.below(2)), static_cast<long>(r.below(3))};
    else if (name == "cut")
      op.a = {static_cast<long>(r.below(2))};
    else if (name == "svclass")
      op.a = {static_cast<long>(r.below(2)), static_cast<long>(r.below(4)), static_cast<long>(r.chance(1, 3) ? 1 + 2 * r.below(3) : 0), static_cast<long>(r.chance(1, 4) ? 1 + 2 * r.below(4) : 0)};
    else if (name == "origin")
      op.a = {static_cast<long>(r.below(5))};
    else if (name == "rr")
      op.a = {static_cast<long>(r.below(6)), static_cast<long>(r.chance(1, 3) ? 1 + 2 * r.below(4) : 0)};
    else if (name == "use")
      op.a = {static_cast<long>(r.below(2)), static_cast<long>(r.below(8)), static_cast<long>(r.below(5)), static_cast<long>(r.below(16)), static_cast<long>(r.below(6))};
    else if (name == "horizon")
      op.a = {static_cast<long>(r.below(12))};
    else if (name == "r_use")
      op.a = {static_cast<long>(r.below(4)), static_cast<long>(r.below(2)), static_cast<long>(r.below(6)), static_cast<long>(r.below(2)), static_cast<long>(r.below(3))};
    else if (name == "disj")
    {
      for (int br = 0; br < 2; ++br)
      {
        g_rel(r, op, K);
        op.a.push_back(static_cast<long>(r.below(32)));
        op.a.push_back(static_cast<long>(r.below(8)));
        op.a.push_back(static_cast<long>(r.below(6)));
        op.a.push_back(static_cast<long>(r.below(3)));
        op.a.push_back(static_cast<long>(r.below(4)));
      }
    }
    return op;
  }

  struct W
  {
    std::vector<std::pair<std::string, int>> w;
    int total = 0;
    void add(const std::string &n, int k)
    {
      if (k > 0)
      {
        w.push_back({n, k});
        total += k;
      }
    }
    const std::string &pick(Rng &r) const
    {
      long x = static_cast<long>(r.below(static_cast<uint64_t>(total)));
      for (auto &p : w)
      {
        if (x < p.second)
          return p.first;
        x -= p.second;
      }
      return w.back().first;
    }
  };

  inline std::vector<Op> generate_profile(uint64_t seed, const std::string &prop);
  // C18 (no abnormal termination on valid programs) has no workload of its own: two times in three it borrows the profile of one
  // of the other properties, so that every structured workload built for them (diamonds, class chains, twin fields, open timelines,
  // blockades, pins, planted blocks...) is also run under C18's crash / hang / teardown oracles and its sanitizer configuration
  inline std::vector<Op> generate(uint64_t seed, const std::string &prop)
  {
    if (prop == "C18")
    {
      Rng pr = Rng(seed).derive("profile");
      static const char *borrow[] = {"C01", "C02", "C03", "C04", "C05", "C06", "C17", "C17", "C19"};
      if (pr.chance(2, 3))
        return generate_profile(seed, borrow[pr.below(9)]);
    }
    return generate_profile(seed, prop);
  }
  inline std::vector<Op> generate_profile(uint64_t seed, const std::string &prop)
  {
    Rng sw = Rng(seed).derive("swarm"), g = Rng(seed).derive("gen");
    std::vector<Op> ops;
    bool objects = false, causal = false, sv = false, rr = false, logic = true;
    if (prop == "C01" || prop == "C02")
    {
      objects = sw.chance(1, 3);
      causal = sw.chance(1, 3);
      sv = sw.chance(1, 5);
      rr = sw.chance(1, 6);
    }
    else if (prop == "C03")
    {
      causal = true;
      objects = sw.chance(1, 6);
      logic = sw.chance(1, 3);
    }
    else if (prop == "C04")
    {
      sv = true;
      causal = sw.chance(1, 3);
      logic = sw.chance(1, 4);
    }
    else if (prop == "C05")
    {
      rr = true;
      sv = sw.chance(1, 6);
      logic = sw.chance(1, 4);
    }
    else if (prop == "C06")
    {
      causal = true;
      sv = sw.chance(1, 2);
      rr = sw.chance(1, 3);
      logic = sw.chance(1, 4);
    }
    else if (prop == "C19")
    { // execution: temporal atoms wanted
      causal = true;
      sv = sw.chance(1, 2);
      rr = sw.chance(1, 4);
      objects = sw.chance(1, 8);
      logic = sw.chance(1, 4);
    }
    else if (prop == "C17")
    {
      objects = true;
      causal = sw.chance(1, 6);
    }
    else
    { // C18 / C19 style: everything
      objects = sw.chance(1, 2);
      causal = sw.chance(1, 2);
      sv = sw.chance(1, 3);
      rr = sw.chance(1, 3);
    }
    ops.push_back(g_op(g, "mode"));
    if (prop == "C17" && sw.chance(1, 3))
      ops.back().a[0] = sw.chance(1, 2) ? 0 : 2; // unplanted object problems: contradictory equalities, empty intersections
    // declarations first (unit 0)
    for (int i = 0, n = static_cast<int>(sw.range(1, 4)); i < n; ++i)
      ops.push_back(g_op(g, "real"));
    for (int i = 0, n = static_cast<int>(sw.range(0, 3)); i < n; ++i)
      ops.push_back(g_op(g, "bool"));
    if (objects && Rng(seed).derive("enum-const").chance(1, prop == "C17" ? 6 : 14))
    { // enums with a single value (a variable of such an enum is that constant itself) included in unions, variables of every
      // enum, and several (dis)equalities between them: variable against constant, constant against variable, constant against constant
      for (int i = 0; i < 3; ++i)
      {
        Op e = g_op(g, "enumt");
        e.a = {static_cast<long>(i == 2 ? 1 + g.below(2) : (g.chance(2, 3) ? 0 : 1)), static_cast<long>(i == 0 ? 0 : (g.chance(3, 4) ? i + 1 : 0))};
        ops.push_back(e);
      }
      for (int i = 0, k = static_cast<int>(g.range(3, 5)); i < k; ++i)
      {
        Op v = g_op(g, "enumv");
        if (i < 3)
          v.a[0] = i;
        ops.push_back(v);
      }
      for (int i = 0, k = static_cast<int>(g.range(2, 5)); i < k; ++i)
        ops.push_back(g_op(g, "eeq"));
    }
    bool diamond = false;
    if (objects && prop == "C17" && sw.chance(1, 6))
    { // multiple inheritance: R; A : R; B : A; C : A [, E]; D : B, C - all without fields; instances of several of them; variables over R, A, E
      diamond = true;
      auto cls = [&](long sup, long sup2)
      {
        Op c;
        c.name = "class";
        c.a = {sup, 0, 0, 0, sup2};
        ops.push_back(c);
      };
      const bool with_e = sw.chance(1, 2);
      cls(0, 0);                 // C0 (R)
      cls(1, 0);                 // C1 : C0 (A)
      cls(2, 0);                 // C2 : C1 (B)
      if (with_e)
        cls(0, 0);               // C3 (E)
      cls(2, with_e ? 4 : 0);    // C : A [, E]
      cls(3, with_e ? 5 : 4);    // D : B, C
    }
    bool twin_fields = false, obj_chain = false;
    if (diamond)
      ;
    else if (objects && (prop == "C17" || prop == "C01") && sw.chance(1, prop == "C17" ? 4 : 10))
    { // a class with two object fields of the same class, a few instances of both, variables over it: `v.g1 != v.h1`
      twin_fields = true;
      Op c0, c1;
      c0.name = c1.name = "class";
      c0.a = {0, static_cast<long>(g.below(2)), 0, 0};
      c1.a = {0, static_cast<long>(g.below(2)), 2, 1};
      ops.push_back(c0);
      ops.push_back(c1);
    }
    else if (objects && Rng(seed).derive("obj-chain").chance(1, prop == "C17" ? 5 : 14))
    { // a chain C0 <- C1 <- C2 with instances of the lower classes, variables over the top class and a predicate whose object
      // parameter has the MIDDLE class: a variable of C0 handed to it keeps the instances of C1 and of C2
      obj_chain = true;
      for (long sup = 0; sup < 3; ++sup)
      {
        Op c;
        c.name = "class";
        c.a = {sup, static_cast<long>(g.below(2)), 0, 0};
        ops.push_back(c);
      }
      static const long order[] = {2, 1, 2, 0, 1};
      for (int i = 0, k = static_cast<int>(g.range(2, 5)); i < k; ++i)
      {
        Op o = g_op(g, "inst");
        o.a[0] = order[i];
        ops.push_back(o);
      }
      for (int i = 0, k = static_cast<int>(g.range(1, 2)); i < k; ++i)
      {
        Op o = g_op(g, "ovar");
        o.a[0] = 0;
        ops.push_back(o);
      }
    }
    else if (objects)
    {
      for (int i = 0, n = static_cast<int>(sw.range(1, 3)); i < n; ++i)
        ops.push_back(g_op(g, "class"));
      if (sw.chance(1, 2))
        for (int i = 0, n = static_cast<int>(sw.range(1, 3)); i < n; ++i)
          ops.push_back(g_op(g, "enumt"));
    }
    if (twin_fields)
    {
      for (int i = 0, k = static_cast<int>(sw.range(2, 3)); i < k; ++i)
      {
        Op o = g_op(g, "inst");
        o.a[0] = 0;
        ops.push_back(o);
      }
      for (int i = 0, k = static_cast<int>(sw.range(2, 4)); i < k; ++i)
      {
        Op o = g_op(g, "inst");
        o.a[0] = 1;
        ops.push_back(o);
      }
      for (int i = 0, k = static_cast<int>(sw.range(1, 2)); i < k; ++i)
      {
        Op o = g_op(g, "ovar");
        o.a[0] = 1;
        ops.push_back(o);
      }
      for (int i = 0, k = static_cast<int>(sw.range(1, 3)); i < k; ++i)
      {
        Op o = g_op(g, "oeq");
        o.a[4] = 1;
        ops.push_back(o);
      }
    }
    bool class_preds = false;
    if ((prop == "C06" && sw.chance(1, 2)) || (prop == "C03" && sw.chance(1, 3)) || (prop != "C06" && prop != "C03" && (causal || objects) && sw.chance(1, 6)))
    { // predicates (mostly temporal) declared inside a plain class, with an instance to put facts and goals on
      class_preds = true;
      if (!objects)
        ops.push_back(g_op(g, "class"));
      for (int i = 0, n = static_cast<int>(sw.range(1, 2)); i < n; ++i)
        ops.push_back(g_op(g, "cpred"));
    }
    bool obj_params = false;
    if (objects && (obj_chain || Rng(seed).derive("obj-params").chance(1, prop == "C17" ? 3 : 8)))
    { // predicates with an object-typed parameter; goals and facts on them come from the ordinary mix below
      obj_params = true;
      for (int i = 0, n = static_cast<int>(g.range(1, 2)); i < n; ++i)
      {
        ops.push_back(g_op(g, "opred"));
        if (obj_chain && i == 0)
          ops.back().a[0] = 1; // the middle class
      }
    }
    if (sv)
      for (int i = 0, n = static_cast<int>(sw.range(1, 2)); i < n; ++i)
        ops.push_back(g_op(g, "svclass"));
    if (causal)
    {
      int np = static_cast<int>(sw.range(1, 4));
      for (int i = 0; i < np; ++i)
        ops.push_back(g_op(g, prop == "C19" || (prop == "C06" && g.chance(2, 3)) ? "tpred" : "pred"));
      // predicate inheritance: one or two predicates extending an earlier one (possibly a chain of depth two)
      if (sw.chance(1, prop == "C06" ? 2 : 5))
        for (int i = 0, k = static_cast<int>(sw.range(1, 2)); i < k; ++i)
          ops.push_back(g_op(g, "spred"));
    }
    if (rr && !causal)
    { // resources used from inside rules: one or two temporal predicates whose rule places a Use fact
      for (int i = 0, n = static_cast<int>(sw.range(1, 2)); i < n; ++i)
        ops.push_back(g_op(g, "tpred"));
    }
    if (causal || sv)
      for (int i = 0, n = static_cast<int>(sw.range(1, 6)); i < n; ++i)
        ops.push_back(g_op(g, g.chance(1, 6) ? "r_logic" : (g.chance(1, 8) ? "r_mul" : (g.chance(1, 2) ? "r_rel" : "r_goal"))));
    if ((prop == "C02" || prop == "C03") && Rng(seed).derive("ublock").chance(1, prop == "C02" ? 4 : 6))
      ops.push_back(g_op(g, "ublock")); // a block solvable by construction, through unification only (P7(b))
    if (prop == "C19" && Rng(seed).derive("epin").chance(1, 6))
      ops.push_back(g_op(g, "epin")); // an early-ending atom under a disjunction whose other branch needs it to end much later (indirectly)
    bool tp_heavy = false;
    W w;
    const bool timeline_focus = prop == "C19" || prop == "C04" || prop == "C05" || prop == "C06";
    w.add("real", 3), w.add("bool", 2), w.add("rel", timeline_focus ? 4 : 14);
    if (logic)
      w.add("logic", 8), w.add("bassert", 3), w.add("xorn", prop == "C01" ? 3 : 1);
    if (objects)
      w.add("inst", 12), w.add("ovar", 8), w.add("oeq", 8), w.add("enumv", 3), w.add("eeq", 4);
    if (causal)
      w.add("goal", 10), w.add("fact", 8), w.add("disj", prop == "C02" || prop == "C03" || prop == "C19" ? 5 : 2), w.add("pin", prop == "C19" ? 5 : 1);
    if (sv)
      w.add("svinst", 5), w.add("goal", 8), w.add("fact", 6), w.add("horizon", 2), w.add("ovar", 2), w.add("touch", prop == "C04" ? 4 : 2);
    if (causal || sv || rr)
      w.add("origin", prop == "C06" ? 3 : 1);
    if (rr)
      w.add("rr", 5), w.add("use", 14), w.add("horizon", 2), w.add("disj", 6), w.add("goal", 4);
    else if (logic)
      w.add("disj", 3);
    if (obj_params)
      w.add("goal", 8), w.add("fact", 8), w.add("r_rel", 3);
    if ((prop == "C01" || prop == "C02") && Rng(seed).derive("tps").chance(1, 5))
    { // time points: relations among `tp` variables go to the real difference-logic theory (statement-level disjunctions decide them)
      for (int i = 0, k = static_cast<int>(g.range(2, 4)); i < k; ++i)
        ops.push_back(g_op(g, "tp"));
      w.add("tprel", 10), w.add("tpdisj", 8);
      tp_heavy = g.chance(1, 2);
    }
    w.add("cut", sw.chance(1, 2) ? 3 : 0);
    int n = static_cast<int>(sw.range(4, causal || sv || rr ? 14 : 18));
    if (tp_heavy)
    { // a scheduling problem in difference logic: many two-way disjunctions over few time points (every disjunction is a decision
      // level: bounds tightened along paths and directly, at several levels, undone by backjumps), little else
      n = static_cast<int>(g.range(0, 3));
      for (int i = 0, k = static_cast<int>(g.range(5, 11)); i < k; ++i)
        ops.push_back(g_op(g, g.chance(1, 4) ? "tprel" : "tpdisj"));
    }
    if (class_preds)
    {
      for (int i = 0; i < 3; ++i)
        ops.push_back(g_op(g, "inst"));
      for (int i = 0, k = static_cast<int>(sw.range(0, 2)); i < k; ++i)
        ops.push_back(g_op(g, "ovar")); // scopes that the search has to decide
      w.add("goal", 8), w.add("fact", 10), w.add("inst", 3), w.add("oeq", 2);
    }
    if (sv)
      ops.push_back(g_op(g, "svinst"));
    if (sv && Rng(seed).derive("open-tau").chance(1, 3))
    { // timelines chosen by the search: a second instance and one or two object variables over the timeline classes; goals and
      // facts stated on them have an open tau (placement / forbid resolvers, the ordering literals between open and pinned atoms)
      ops.push_back(g_op(g, "svinst"));
      for (int i = 0, k = static_cast<int>(g.range(1, 2)); i < k; ++i)
        ops.push_back(g_op(g, "ovar"));
      if (g.chance(1, 2))
        ops.push_back(g_op(g, "blockade"));
    }
    if (rr)
    {
      ops.push_back(g_op(g, "rr"));
      for (int i = 0, k = static_cast<int>(sw.range(0, 3)); i < k; ++i)
        ops.push_back(g_op(g, "r_use"));
    }
    for (int i = 0; i < n; ++i)
      ops.push_back(g_op(g, w.pick(g)));
    return ops;
  }
} // namespace plan
