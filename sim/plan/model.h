// PLAN engine: our own small AST of a RIDDLE problem with exact semantics. A problem is built from a list
// of integer ops (interpreted modulo what has been declared), printed as RIDDLE text with the safe
// printing rules of DESIGN.md section 6 (parenthesised sub-expressions start with an identifier), and
// later evaluated on the reported solution without asking the network anything.
#pragma once
#include <algorithm>
#include "../core/common.h"
#include <gmpxx.h>
#include <map>
#include <memory>
#include <set>
#include <string>
#include <vector>

namespace plan
{
  using sim::Op;

  // a dotted path to a value, relative to a scope: "x0", "o1.f0", "v0.f1", "this-atom param", "q.k"
  using Path = std::vector<std::string>;
  inline std::string ptext(const Path &p)
  {
    std::string s;
    for (auto &n : p)
      s += (s.empty() ? "" : ".") + n;
    return s;
  }

  struct Lin
  {
    std::vector<std::pair<mpq_class, Path>> t;
    mpq_class k = 0;
  };
  inline std::string qtext(const mpq_class &q)
  { // RIDDLE real literal (always with a decimal point); rationals printed as a/b with real operands
    mpq_class a = abs(q);
    std::string s;
    if (a.get_den() == 1)
      s = a.get_num().get_str() + ".0";
    else if (a.get_den() == 2 || a.get_den() == 4 || a.get_den() == 5 || a.get_den() == 10)
    {
      mpz_class scaled = a.get_num() * (100 / a.get_den());
      std::string d = mpz_class(scaled % 100).get_str();
      if (d.size() < 2)
        d = "0" + d;
      s = mpz_class(scaled / 100).get_str() + "." + d;
    }
    else
      s = a.get_num().get_str() + ".0/" + a.get_den().get_str() + ".0";
    return s;
  }
  // prints a linear expression (first term may carry a unary minus)
  inline std::string ltext(const Lin &l)
  {
    std::string s;
    bool first = true;
    for (auto &p : l.t)
    {
      const mpq_class &c = p.first;
      const mpq_class ac = abs(c);
      std::string term = ptext(p.second);
      if (ac != 1)
      {
        if (ac.get_den() == 1 || ac.get_den() == 2 || ac.get_den() == 4)
          term += "*" + qtext(ac);
        else
          term += "*" + ac.get_num().get_str() + ".0/" + ac.get_den().get_str() + ".0";
      }
      if (first)
        s += (sgn(c) < 0 ? "-" : "") + term;
      else
        s += (sgn(c) < 0 ? " - " : " + ") + term;
      first = false;
    }
    if (first)
      return (sgn(l.k) < 0 ? "-" : "") + qtext(l.k);
    if (l.k != 0)
      s += (sgn(l.k) < 0 ? " - " : " + ") + qtext(l.k);
    return s;
  }

  enum RelOp
  {
    LT,
    LEQ,
    EQ,
    GEQ,
    GT,
    NEQ
  };
  inline const char *rname(int r)
  {
    static const char *n[] = {"<", "<=", "==", ">=", ">", "!="};
    return n[r];
  }

  struct B;
  using BP = std::shared_ptr<B>;
  struct B
  {
    enum K
    {
      REL,  // l rel r
      BVAR, // path
      NOT,
      OR,
      AND,
      XOR, // exactly one
      IMP,
      BEQ,  // sub0 == sub1 (booleans)
      OEQ,  // object path == object path
      ONEQ, // object path != object path
      EVAL  // enum path ==/!= string value: s = value, neg flag
    } k = REL;
    Lin l, r;
    int rel = 0;
    Path p, p2;
    std::string sval;
    bool neg = false;
    std::vector<BP> sub;
  };

  // does the printed form start with an identifier (so that it may follow '(')?
  inline bool leads_with_id(const BP &b)
  {
    switch (b->k)
    {
    case B::REL:
      return !b->l.t.empty() && sgn(b->l.t[0].first) > 0;
    case B::BVAR:
    case B::OEQ:
    case B::ONEQ:
    case B::EVAL:
      return true;
    case B::NOT:
      return false;
    default:
      return !b->sub.empty() && leads_with_id(b->sub[0]);
    }
  }
  inline std::string btext(const BP &b);
  inline std::string paren(const BP &b) { return "(" + btext(b) + ")"; }
  inline std::string btext(const BP &b)
  {
    switch (b->k)
    {
    case B::REL:
      return ltext(b->l) + " " + rname(b->rel) + " " + ltext(b->r);
    case B::BVAR:
      return ptext(b->p);
    case B::NOT:
      return b->sub[0]->k == B::BVAR ? "!" + btext(b->sub[0]) : "!" + paren(b->sub[0]);
    case B::OEQ:
      return ptext(b->p) + " == " + ptext(b->p2);
    case B::ONEQ:
      return ptext(b->p) + " != " + ptext(b->p2);
    case B::EVAL:
      return ptext(b->p) + (b->neg ? " != " : " == ") + "\"" + b->sval + "\"";
    case B::BEQ:
      return btext(b->sub[0]) + " == " + (b->sub[1]->k == B::BVAR ? btext(b->sub[1]) : paren(b->sub[1]));
    default:
    {
      const char *o = b->k == B::OR ? " | " : b->k == B::AND ? " & " : b->k == B::XOR ? " ^ " : " -> ";
      std::string s = (b->sub[0]->k == B::BVAR || b->sub[0]->k == B::REL) ? btext(b->sub[0]) : paren(b->sub[0]);
      for (size_t i = 1; i < b->sub.size(); ++i)
        s += o + (b->sub[i]->k == B::BVAR ? btext(b->sub[i]) : paren(b->sub[i]));
      return s;
    }
    }
  }

  struct ClassD
  {
    std::string name;
    int super = -1;
    int super2 = -1;                  // a second base class (only among classes without fields or parameters)
    std::vector<std::string> rfields; // own real fields
    std::vector<int> rfield_mode;     // per own real field: 0 set by the constructor's initialiser list only; 1 `real f = d;` AND a list entry (the list wins); 2 `real f = d;` only (no constructor parameter); 3 `real f;` and nothing else: a free variable of each instance
    mpq_class rfield_default(size_t i) const { return mpq_class(41 + 2 * static_cast<long>(i)); }
    int rmode(size_t i) const { return i < rfield_mode.size() ? rfield_mode[i] : 0; }
    int ofield_class = -1;            // own object field "g" of that class (or -1)
    bool ofield_twice = false;        // a second own object field "h" of the same class
    bool is_sv = false;
    bool is_agent = false;  // with is_sv: `class A : Agent` - a timeline type without mutual exclusion, predicates are Interval or Impulse as declared
    std::vector<int> preds; // predicates declared inside (state variables)
  };
  struct InstD
  {
    std::string name;
    int cls;
    std::vector<mpq_class> rargs; // values of all real fields (super first)
    std::vector<int> oargs;       // instance index for each object field (super first)
    int unit = 0;                 // compilation unit in which it is created
    size_t order = 0;             // global statement order
  };
  struct OVarD
  {
    std::string name;
    int cls;
    int unit = 0;
    size_t order = 0;
  };
  struct EnumD
  {
    std::string name;
    std::vector<std::string> vals;
    int includes = -1;
  };
  struct EVarD
  {
    std::string name;
    int en;
  };

  struct BodyItem;
  struct PredD
  {
    std::string name;
    int cls = -1; // declared inside class (state variable) or -1 for global
    int kind = 0; // 0 plain, 1 Interval, 2 Impulse (global predicates); class predicates of SVs are Intervals
    std::vector<std::string> rparams; // for a sub-predicate: the inherited parameters first, its own from 'own_from' on
    std::vector<std::string> fixed_params; // parameters every goal, fact and sub-goal must give a constant for (they are factors of a product in the rule)
    int super = -1;                   // index of the predicate it extends (global predicates only), or -1
    std::string oparam;               // an object-typed parameter (`predicate P(real a, C1 ob)`), or empty
    int oparam_cls = -1;
    int second_base_kind = 0;         // a sub-predicate of a plain predicate that is temporal through a SECOND base: `predicate P2() : P1, Interval`
    size_t own_from = 0;
    std::vector<std::shared_ptr<BodyItem>> body;
  };
  struct Arg
  {
    std::string param;
    Lin val;       // numeric value expression (over the scope's numeric leaves)
    Path oval;     // or an object path (for tau-like parameters)
    bool is_obj = false;
  };
  struct BodyItem
  {
    enum K
    {
      ASSERT,
      SUBGOAL,
      DISJ
    } k = ASSERT;
    BP b;
    // SUBGOAL
    std::string local;
    int pred = -1;
    bool is_fact = false;
    std::vector<Arg> args;
    Path scope; // e.g. {"sv0"} for "new sv0.P(...)"; empty for same-scope / global predicate
    // DISJ
    std::vector<std::vector<std::shared_ptr<BodyItem>>> branches;
  };

  struct Stmt
  {
    enum K
    {
      DECL, // text only (variable / instance declarations), nothing to check by itself
      ASSERT,
      FORMULA, // top-level goal / fact
      DISJ,
      CUT
    } k = DECL;
    std::string text; // RIDDLE text
    BP b;
    std::shared_ptr<BodyItem> item;
    int cut_mode = 0; // CUT: 0 = new read() only, 1 = solve() in between
    bool structural = false; // ASSERT: fixes a factor of a product in a rule (`g.a == 3.0;` right after the goal): never left out
  };

  struct Model
  {
    std::vector<std::string> reals, bools;
    std::vector<ClassD> classes;
    std::vector<InstD> insts;
    std::vector<OVarD> ovars;
    std::vector<EnumD> enums;
    std::vector<EVarD> evars;
    std::vector<PredD> preds;
    std::vector<Stmt> stmts;     // in program order
    std::vector<std::string> decl_text; // class / enum / predicate declarations (printed first, in unit 0)
    int unit = 0;
    int n_locals = 0;
    int n_formulas = 0;
    bool has_rr = false;
    std::vector<std::string> rr_names;
    std::vector<mpq_class> rr_caps;   // the capacity, or the constant c of a capacity given as `c - x`
    std::vector<std::string> rr_cap_var; // "" or the x of `c - x`
    std::vector<int> sv_insts; // indices into insts of state-variable instances
    std::set<std::string> mentioned; // root names of every path used in some constraint / argument
    std::map<std::string, int> mention_count;                 // how many times
    std::map<std::string, std::pair<int, int>> oarg_use;      // object variable given as the object argument of a formula: (class of the parameter, unit of the statement)
    void mention_root(const std::string &n)
    {
      mentioned.insert(n);
      ++mention_count[n];
    }

    // all real fields of a class, super first
    void all_rfields(int c, std::vector<std::string> &out) const
    {
      if (c < 0)
        return;
      all_rfields(classes[c].super, out);
      for (auto &f : classes[c].rfields)
        out.push_back(f);
    }
    void all_rfield_owners(int c, std::vector<std::pair<int, size_t>> &out) const
    {
      if (c < 0)
        return;
      all_rfield_owners(classes[c].super, out);
      for (size_t i = 0; i < classes[c].rfields.size(); ++i)
        out.push_back({c, i});
    }
    void all_ofields(int c, std::vector<std::pair<std::string, int>> &out) const
    {
      if (c < 0)
        return;
      all_ofields(classes[c].super, out);
      if (classes[c].ofield_class >= 0)
        out.push_back({"g" + std::to_string(c), classes[c].ofield_class});
      if (classes[c].ofield_class >= 0 && classes[c].ofield_twice)
        out.push_back({"h" + std::to_string(c), classes[c].ofield_class});
    }
    // the values an enum variable ranges over: its own and, transitively, those of the enums it includes; ids are global
    std::vector<std::pair<int, std::string>> enum_values(int en) const
    {
      std::vector<std::pair<int, std::string>> out;
      for (; en >= 0; en = enums[en].includes)
        for (size_t i = 0; i < enums[en].vals.size(); ++i)
          out.push_back({1000 * en + static_cast<int>(i), enums[en].vals[i]});
      return out;
    }
    // the rule of a predicate is the rules of the predicates it extends (outermost first) followed by its own
    std::vector<std::shared_ptr<BodyItem>> eff_body(const PredD &p) const
    {
      std::vector<std::shared_ptr<BodyItem>> out;
      if (p.super >= 0)
        out = eff_body(preds[p.super]);
      out.insert(out.end(), p.body.begin(), p.body.end());
      return out;
    }
    bool param_fixed(int p, const std::string &name) const
    {
      for (; p >= 0; p = preds[p].super)
        if (std::find(preds[p].fixed_params.begin(), preds[p].fixed_params.end(), name) != preds[p].fixed_params.end())
          return true;
      return false;
    }
    bool any_param_fixed(int p) const
    {
      for (; p >= 0; p = preds[p].super)
        if (!preds[p].fixed_params.empty())
          return true;
      return false;
    }
    bool pred_extends(int q, int p) const
    {
      for (; q >= 0; q = preds[q].super)
        if (q == p)
          return true;
      return false;
    }
    bool enum_related(int e1, int e2) const
    {
      for (int e = e1; e >= 0; e = enums[e].includes)
        if (e == e2)
          return true;
      for (int e = e2; e >= 0; e = enums[e].includes)
        if (e == e1)
          return true;
      return false;
    }
    bool is_subclass(int c, int of) const
    {
      if (c < 0)
        return false;
      if (c == of)
        return true;
      return is_subclass(classes[c].super, of) || is_subclass(classes[c].super2, of);
    }
    bool fieldless(int c) const
    { // neither the class nor anything it extends has fields (hence its constructor takes nothing)
      if (c < 0)
        return true;
      return classes[c].rfields.empty() && classes[c].ofield_class < 0 && !classes[c].is_sv && fieldless(classes[c].super) && fieldless(classes[c].super2);
    }
    int root_of(int c) const
    {
      while (classes[c].super >= 0)
        c = classes[c].super;
      return c;
    }
  };
} // namespace plan
