// Builds a Model (and its RIDDLE text, cut into compilation units) from integer ops.
#pragma once
#include "model.h"

namespace plan
{
  struct Scope
  {
    std::vector<Path> nums, bools;
    std::vector<std::pair<Path, int>> objs; // object-valued paths with their class
  };

  void ctor_args(const Model &m, int c, const InstD &in, std::vector<std::string> &out);

  class Builder
  {
  public:
    Model m;
    Scope top;
    std::map<int, Scope> rule_scope; // per predicate
    size_t order = 0;
    std::vector<int> real_unit;
    std::string tp_fixed;         // a real variable fixed at top level (`xf == c;`) that disjuncts may mix into time-point relations
    std::vector<std::string> tps; // time-point variables (`tp t0;`): also listed in m.reals, never in a Scope
    // planting: a hidden assignment that (most) generated constraints are made consistent with, so that
    // problems are satisfiable by a small margin (or unsatisfiable by a small margin when unplanted)
    int plant_mode = 1; // 0 none, 1 all statements, 2 most statements
    // quarantine rules of open known findings (known_findings.json): shapes the main exploration keeps away from
    bool q_undecided_relations = true; // KF-P1: x != y, ^ over relations, b == (r & r): relation literals nobody decides
    bool q_disj_polarity = true;       // KF-P2: !(a | b), b == (a | c): the disjunction flaw forces a disjunct regardless of polarity
    bool q_empty_object_domain = true; // KF-P9: a goal/fact whose object parameter has no value at all (no instance of its class) trips an assertion of the reader
    bool q_rr_numeric = false;         // KF-P7: capacities that are expressions (a peak that only a different capacity/amount value removes is never resolved); set where negative verdicts are judged
    long quarantined = 0;
    std::map<std::string, mpq_class> planted;
    std::map<std::string, bool> bplanted;
    std::map<std::string, int> oplanted; // object path -> instance index

    bool pval(const Lin &l, mpq_class &out) const
    {
      out = l.k;
      for (auto &t : l.t)
      {
        auto it = planted.find(ptext(t.second));
        if (it == planted.end())
          return false;
        out += t.first * it->second;
      }
      return true;
    }
    // adjusts the constant of the right-hand side so that the relation has the wanted truth value under the planted assignment
    bool plant_rel(const BP &b, bool want, long slack)
    {
      mpq_class lv, rv;
      if (!pval(b->l, lv) || !pval(b->r, rv))
        return false;
      rv -= b->r.k;
      mpq_class d = lv - rv; // relation: d rel r.k
      mpq_class s = mpq_class(modn(slack, 3));
      mpq_class s1 = s == 0 ? mpq_class(1, 2) : s; // strictly positive
      int rel = b->rel;
      if (!want)
      {
        static const int negr[] = {GEQ, GT, NEQ, LT, LEQ, EQ};
        rel = negr[rel];
      }
      switch (rel)
      {
      case LT:
        b->r.k = d + s1;
        break;
      case LEQ:
        b->r.k = d + s;
        break;
      case EQ:
        b->r.k = d;
        break;
      case GEQ:
        b->r.k = d - s;
        break;
      case GT:
        b->r.k = d - s1;
        break;
      default:
        b->r.k = d + s1;
        break;
      }
      return true;
    }
    bool planting(long u) const { return plant_mode == 1 || (plant_mode == 2 && modn(u, 4) != 0); }

    bool in_plain_sv(const PredD &p) const { return p.cls >= 0 && m.classes[p.cls].is_sv && !m.classes[p.cls].is_agent; }
    bool p_interval(const PredD &p) const { return in_plain_sv(p) || p.kind == 1; }
    bool p_impulse(const PredD &p) const { return !in_plain_sv(p) && p.kind == 2; }
    static long modn(long v, size_t n) { return n ? static_cast<long>((v < 0 ? -v : v) % static_cast<long>(n)) : 0; }

    mpq_class q(long num, long den, long lim)
    {
      den = (den < 0 ? -den : den) % 4 + 1;
      if (num > lim || num < -lim)
        num %= (lim + 1);
      mpq_class r(num, den);
      r.canonicalize();
      return r;
    }
    Lin parse_lin(const Op &op, size_t &pos, const Scope &sc, int minterms = 0)
    {
      Lin l;
      long n = modn(op.arg(pos++), 4);
      if (n < minterms)
        n = minterms;
      std::map<std::string, size_t> seen;
      for (long i = 0; i < 3; ++i)
      { // always three term slots (the first n are used), so that shrinking n keeps the positions of later arguments
        long num = op.arg(pos++), den = op.arg(pos++), v = op.arg(pos++);
        if (i >= n || sc.nums.empty())
          continue;
        mpq_class c = q(num == 0 ? 1 : num, den, 5);
        if (c == 0)
          c = 1;
        const Path &p = sc.nums[modn(v, sc.nums.size())];
        auto it = seen.find(ptext(p));
        if (it != seen.end())
        { // the same leaf again: half of the time it stays a term of its own in the text (`x0 - x1 - x0`), otherwise the coefficients are merged
          if ((num ^ den) & 1)
            l.t.push_back({c, p});
          else
            l.t[it->second].first += c;
          continue;
        }
        seen[ptext(p)] = l.t.size();
        l.t.push_back({c, p});
      }
      // drop cancelled terms (a zero coefficient must never be printed)
      std::vector<std::pair<mpq_class, Path>> t2;
      for (auto &p : l.t)
        if (p.first != 0)
          t2.push_back(p);
      l.t = t2;
      l.k = q(op.arg(pos), op.arg(pos + 1), 30);
      pos += 2;
      return l;
    }
    // a relation; when it has to follow '(' its left side is made to start with a positively signed identifier
    BP parse_rel(const Op &op, size_t &pos, const Scope &sc, bool leading_id)
    {
      auto b = std::make_shared<B>();
      b->k = B::REL;
      b->rel = static_cast<int>(modn(op.arg(pos++), 6));
      if (b->rel == NEQ && q_undecided_relations)
      {
        b->rel = LT;
        ++quarantined;
      }
      b->l = parse_lin(op, pos, sc, leading_id ? 1 : 0);
      b->r = parse_lin(op, pos, sc, 0);
      if (leading_id)
      {
        if (b->l.t.empty())
          return nullptr;
        size_t i = 0;
        while (i < b->l.t.size() && sgn(b->l.t[i].first) < 0)
          ++i;
        if (i == b->l.t.size())
        { // all negative: negate both sides and flip the relation
          for (auto &t : b->l.t)
            t.first = -t.first;
          b->l.k = -b->l.k;
          for (auto &t : b->r.t)
            t.first = -t.first;
          b->r.k = -b->r.k;
          static const int flip[] = {GT, GEQ, EQ, LEQ, LT, NEQ};
          b->rel = flip[b->rel];
          i = 0;
        }
        std::swap(b->l.t[0], b->l.t[i]);
      }
      return b;
    }

    void mention(const Lin &l)
    {
      for (auto &t : l.t)
        m.mention_root(t.second[0]);
    }
    void mention(const BP &b)
    {
      mention(b->l);
      mention(b->r);
      if (!b->p.empty())
        m.mention_root(b->p[0]);
      if (!b->p2.empty())
        m.mention_root(b->p2[0]);
      for (auto &c : b->sub)
        mention(c);
    }
    void decl(const std::string &text)
    {
      Stmt s;
      s.k = Stmt::DECL;
      s.text = text;
      m.stmts.push_back(s);
      ++order;
    }
    void assert_stmt(const BP &b)
    {
      // a top-level statement may not start with '-' or '(' (compilation-unit dispatch of the parser):
      // bring a positively signed term to the front, or start with the literal 0.0
      if (b->k == B::REL && !b->l.t.empty() && sgn(b->l.t[0].first) < 0)
      {
        size_t i = 0;
        while (i < b->l.t.size() && sgn(b->l.t[i].first) < 0)
          ++i;
        if (i < b->l.t.size())
          std::swap(b->l.t[0], b->l.t[i]);
      }
      mention(b);
      Stmt s;
      s.k = Stmt::ASSERT;
      s.b = b;
      s.text = btext(b) + ";";
      if (s.text[0] == '-')
        s.text = "0.0 " + std::string("- ") + s.text.substr(1);
      m.stmts.push_back(s);
      ++order;
    }

    Scope &scope_of_pred(int p)
    {
      auto it = rule_scope.find(p);
      if (it != rule_scope.end())
        return it->second;
      Scope sc;
      for (auto &a : m.preds[p].rparams)
        sc.nums.push_back({a});
      if (!m.preds[p].oparam.empty())
      { // the real fields of whichever instance the object parameter takes
        std::vector<std::string> rf;
        m.all_rfields(m.preds[p].oparam_cls, rf);
        for (auto &f : rf)
          sc.nums.push_back({m.preds[p].oparam, f});
      }
      if (p_interval(m.preds[p]))
      {
        sc.nums.push_back({"start"});
        sc.nums.push_back({"end"});
        sc.nums.push_back({"duration"});
      }
      else if (p_impulse(m.preds[p]))
        sc.nums.push_back({"at"});
      for (size_t i = 0; i < m.reals.size(); ++i)
        if (real_unit[i] == 0)
          sc.nums.push_back({m.reals[i]});
      return rule_scope[p] = sc;
    }

    std::vector<Arg> parse_args(const Op &op, size_t &pos, int pred, const Scope &sc)
    {
      std::vector<Arg> args;
      const PredD &pd = m.preds[pred];
      std::vector<std::string> names = pd.rparams;
      if (p_interval(pd))
      {
        names.push_back("start");
        names.push_back("end");
        names.push_back("duration");
      }
      else if (p_impulse(pd))
        names.push_back("at");
      long mask = op.arg(pos++);
      for (size_t i = 0; i < names.size(); ++i)
      {
        // each parameter is given with probability ~1/2 (mask bit); value is a lin over the scope
        Lin v = parse_lin(op, pos, sc, 0);
        if (m.param_fixed(pred, names[i]))
        { // a factor of a product in the rule: always given, always a (small) constant
          v.t.clear();
          v.k = mpq_class(modn(v.k.get_num().get_si(), 5) - 1);
          Arg a;
          a.param = names[i];
          a.val = v;
          args.push_back(a);
          continue;
        }
        if (!((mask >> i) & 1))
          continue;
        const bool temporal = names[i] == "start" || names[i] == "end" || names[i] == "duration" || names[i] == "at";
        if (temporal && v.t.empty())
        { // plain temporal constants are kept inside [origin, ...): small and non-negative
          v.k = abs(v.k);
          if (names[i] == "duration")
            v.k = mpq_class(modn(v.k.get_num().get_si(), 4)) / (v.k.get_den() == 1 ? 1 : 2);
          else if (v.k > 9)
            v.k = mpq_class(modn(v.k.get_num().get_si(), 10));
        }
        if (names[i] == "end" && ((mask >> (i - 1)) & 1) && ((mask >> (i + 1)) & 1))
          continue; // never start, end and duration all at once (almost always inconsistent)
        Arg a;
        a.param = names[i];
        a.val = v;
        args.push_back(a);
      }
      return args;
    }
    std::string args_text(const std::vector<Arg> &args)
    {
      std::string s;
      for (auto &a : args)
        s += (s.empty() ? "" : ", ") + a.param + ":" + (a.is_obj ? ptext(a.oval) : ltext(a.val));
      return s;
    }

    void apply(const Op &op);
    void apply_timeline(const Op &op);
    void finalize();
    std::vector<std::string> units; // RIDDLE text of each compilation unit
    std::string block_text;         // `ublock`: a block of the problem that is solvable by construction, as a problem of its own
    std::vector<int> unit_cut_mode;
    // an equivalent formulation of the whole problem as one compilation unit: declarations and formulas in their
    // original order, then the independent top-level constraints in a seeded order, optionally with a tautology
    std::string variant(uint64_t seed, bool tautology) const
    {
      std::string t = m.decl_text.empty() ? std::string() : m.decl_text.back();
      std::vector<const Stmt *> later;
      for (auto &s : m.stmts)
        if (s.k == Stmt::DECL || s.k == Stmt::FORMULA || s.k == Stmt::DISJ)
          t += s.text + "\n";
        else if (s.k == Stmt::ASSERT)
          later.push_back(&s);
      sim::Rng r = sim::Rng(seed).derive("variant");
      for (size_t i = later.size(); i > 1; --i)
        std::swap(later[i - 1], later[r.below(i)]);
      if (tautology)
        t += "bool taut_0;\ntaut_0 | !taut_0;\n";
      for (auto *s : later)
        t += s->text + "\n";
      return t;
    }
    // another equivalent formulation: the goal / fact / disjunction statements in the opposite order (declarations first, constraints
    // last, as in the original). Empty when fewer than two such statements, or when one of them mentions a name another one declares
    std::string variant_reversed_formulas() const
    {
      std::vector<const Stmt *> fs;
      for (auto &s : m.stmts)
        if (s.k == Stmt::FORMULA || s.k == Stmt::DISJ)
          fs.push_back(&s);
      if (fs.size() < 2 || !block_text.empty())
        return std::string(); // (the planted block states its facts before its goal on purpose: KF-P8)
      // names declared by these statements: `goal g0 = ...`, `fact u1 = ...` (also inside disjuncts)
      std::vector<std::pair<std::string, const Stmt *>> names;
      for (auto *st : fs)
      {
        const std::string &t = st->text;
        for (size_t i = 0; i + 5 < t.size(); ++i)
          if ((t.compare(i, 5, "goal ") == 0 || t.compare(i, 5, "fact ") == 0) && (i == 0 || !isalnum(static_cast<unsigned char>(t[i - 1]))))
          {
            size_t a = i + 5, e = a;
            while (e < t.size() && (isalnum(static_cast<unsigned char>(t[e])) || t[e] == '_'))
              ++e;
            if (e > a)
              names.push_back({t.substr(a, e - a), st});
          }
      }
      for (auto *st : fs)
        for (auto &nm : names)
          if (nm.second != st)
          {
            size_t at = 0;
            while ((at = st->text.find(nm.first, at)) != std::string::npos)
            {
              const bool lb = at == 0 || !(isalnum(static_cast<unsigned char>(st->text[at - 1])) || st->text[at - 1] == '_');
              const size_t e = at + nm.first.size();
              const bool rb = e >= st->text.size() || !(isalnum(static_cast<unsigned char>(st->text[e])) || st->text[e] == '_');
              if (lb && rb)
                return std::string();
              at = e;
            }
          }
      std::string t = m.decl_text.empty() ? std::string() : m.decl_text.back();
      for (auto &s : m.stmts)
        if (s.k == Stmt::DECL)
          t += s.text + "\n";
      for (size_t i = fs.size(); i > 0; --i)
        t += fs[i - 1]->text + "\n";
      for (auto &s : m.stmts)
        if (s.k == Stmt::ASSERT)
          t += s.text + "\n";
      return t;
    }
    // a relaxation: one top-level constraint statement is left out. Every solution of the problem solves the relaxation too, so a
    // solved problem must not turn unsolvable. Empty when there is no constraint statement
    std::string variant_relaxed(uint64_t seed, std::string &dropped) const
    {
      std::vector<const Stmt *> as;
      for (auto &s : m.stmts)
        if (s.k == Stmt::ASSERT && !s.structural)
          as.push_back(&s);
      if (as.empty())
        return std::string();
      const Stmt *drop = as[sim::Rng(seed).derive("relax").below(as.size())];
      dropped = drop->text;
      std::string t = m.decl_text.empty() ? std::string() : m.decl_text.back();
      for (auto &s : m.stmts)
        if ((s.k == Stmt::DECL || s.k == Stmt::FORMULA || s.k == Stmt::DISJ || s.k == Stmt::ASSERT) && &s != drop)
          t += s.text + "\n";
      return t;
    }
    // another equivalent formulation: one top-level fact is stated twice (under a second name, right after the original, every
    // parameter equated with the original's). The second copy can always be unified with the first, so the verdict must not change. Facts on reusable resources are left
    // alone (`Use` atoms never unify: stating one twice does double the usage). Empty when there is no such fact
    std::string variant_fact_twice(uint64_t seed) const
    {
      std::vector<const Stmt *> cands;
      for (auto &s : m.stmts)
        if (s.k == Stmt::FORMULA && s.item && s.item->is_fact && s.item->pred >= 0 && s.text.compare(0, 5 + s.item->local.size() + 3, "fact " + s.item->local + " = ") == 0)
          cands.push_back(&s);
      if (cands.empty())
        return std::string();
      const Stmt *pick = cands[sim::Rng(seed).derive("twice").below(cands.size())];
      std::string t = m.decl_text.empty() ? std::string() : m.decl_text.back();
      for (auto &s : m.stmts)
        if (s.k == Stmt::DECL)
          t += s.text + "\n";
      for (auto &s : m.stmts)
        if (s.k == Stmt::FORMULA || s.k == Stmt::DISJ)
        {
          t += s.text + "\n";
          if (&s == pick)
            t += "fact " + s.item->local + "_again = " + s.text.substr(5 + s.item->local.size() + 3) + "\n";
        }
      for (auto &s : m.stmts)
        if (s.k == Stmt::ASSERT)
          t += s.text + "\n";
      // the second copy is the SAME fact: every parameter equal (a copy with free parameters of its own would be one more fact)
      const PredD &pd = m.preds[pick->item->pred];
      std::vector<std::string> ps = pd.rparams;
      if (p_interval(pd))
        ps.push_back("start"), ps.push_back("end");
      else if (p_impulse(pd))
        ps.push_back("at");
      for (auto &a : ps)
        t += pick->item->local + "_again." + a + " == " + pick->item->local + "." + a + ";\n";
      return t;
    }
    // another equivalent formulation: every disjunction statement gets one more disjunct that can never be chosen (a goal
    // whose rule is `false`); declarations first, everything else in the original order. Empty when there is no disjunction
    std::string variant_with_dead_disjunct() const
    {
      std::string t = (m.decl_text.empty() ? std::string() : m.decl_text.back()) + "predicate Never0() {\n  false;\n}\n";
      bool any = false;
      int k = 0;
      for (auto &s : m.stmts)
        if (s.k == Stmt::DECL)
          t += s.text + "\n";
      for (auto &s : m.stmts)
        if (s.k == Stmt::DISJ)
        {
          any = true;
          t += s.text + " or { goal never" + std::to_string(k++) + " = new Never0(); }\n";
        }
        else if (s.k == Stmt::FORMULA || s.k == Stmt::ASSERT)
          t += s.text + "\n";
      return any ? t : std::string();
    }
  };

  inline void Builder::apply(const Op &op)
  {
    const std::string &n = op.name;
    if (n == "mode")
      plant_mode = static_cast<int>(modn(op.arg(0), 3));
    else if (n == "real")
    {
      std::string v = "x" + std::to_string(m.reals.size());
      m.reals.push_back(v);
      real_unit.push_back(m.unit);
      top.nums.push_back({v});
      static const char *pv[] = {"0", "1", "-2", "3", "1/2", "5", "-1", "5/2"};
      planted[v] = mpq_class(pv[(m.reals.size() - 1) % 8]);
      decl(std::string(modn(op.arg(0), 6) == 5 ? "int " : "real ") + v + ";");
    }
    else if (n == "bool")
    {
      std::string v = "b" + std::to_string(m.bools.size());
      m.bools.push_back(v);
      top.bools.push_back({v});
      bplanted[v] = (m.bools.size() % 3) != 0;
      decl("bool " + v + ";");
    }
    else if (n == "xorn")
    { // exactly one of 4..7 Boolean variables (declared here when there are not enough): `b0 ^ b3 ^ b4 ^ b5 ^ b6;`
      size_t k = static_cast<size_t>(modn(op.arg(0), 4)) + 4;
      while (top.bools.size() < k)
      {
        std::string v = "b" + std::to_string(m.bools.size());
        m.bools.push_back(v);
        top.bools.push_back({v});
        bplanted[v] = false;
        decl("bool " + v + ";");
      }
      std::vector<size_t> idx(top.bools.size());
      for (size_t i = 0; i < idx.size(); ++i)
        idx[i] = i;
      sim::Rng r(static_cast<uint64_t>(op.arg(1)) * 2654435761ULL + 17);
      for (size_t i = idx.size(); i > 1; --i)
        std::swap(idx[i - 1], idx[r.below(i)]);
      auto b = std::make_shared<B>();
      b->k = B::XOR;
      size_t planted_true = 0;
      for (size_t i = 0; i < k; ++i)
      {
        auto s = std::make_shared<B>();
        s->k = B::BVAR;
        s->p = top.bools[idx[i]];
        planted_true += bplanted[ptext(s->p)] ? 1 : 0;
        b->sub.push_back(s);
      }
      if (planted_true != 1)
      { // keep the hidden assignment a solution: exactly the first operand is true in it
        for (size_t i = 0; i < k; ++i)
          bplanted[ptext(b->sub[i]->p)] = i == 0;
      }
      assert_stmt(b);
    }
    else if (n == "class")
    {
      if (m.unit != 0 || m.classes.size() >= (op.arg(4) ? 7u : 4u))
        return;
      ClassD c;
      int id = static_cast<int>(m.classes.size());
      c.name = "C" + std::to_string(id);
      long sup = modn(op.arg(0), m.classes.size() + 1);
      c.super = static_cast<int>(sup) - 1;
      if (c.super >= 0 && m.classes[c.super].is_sv)
        c.super = -1;
      long nf = modn(op.arg(1), 3);
      for (long i = 0; i < nf; ++i)
      {
        c.rfields.push_back("f" + std::to_string(id) + "_" + std::to_string(i));
        c.rfield_mode.push_back(static_cast<int>(modn(op.arg(5) >> (2 * i), 4))); // field initialisers / free fields
      }
      long ofc = modn(op.arg(2), m.classes.size() + 2);
      if (ofc >= 2 && !m.classes[ofc - 2].is_sv)
        c.ofield_class = static_cast<int>(ofc) - 2;
      c.ofield_twice = c.ofield_class >= 0 && (op.arg(3) & 1);
      if (op.arg(4) > 0)
      { // a second base class: only among classes which have no fields at all
        int s2 = static_cast<int>(modn(op.arg(4) - 1, m.classes.size()));
        c.rfields.clear();
        c.ofield_class = -1;
        c.ofield_twice = false;
        if (s2 != c.super && m.fieldless(s2) && m.fieldless(c.super) && !m.is_subclass(s2, c.super) && !m.is_subclass(c.super, s2))
          c.super2 = s2;
      }
      m.classes.push_back(c);
    }
    else if (n == "inst")
    {
      if (m.classes.empty())
        return;
      int c = static_cast<int>(modn(op.arg(0), m.classes.size()));
      if (m.classes[c].is_sv)
        return;
      InstD in;
      in.cls = c;
      in.name = "o" + std::to_string(m.insts.size());
      in.unit = m.unit;
      in.order = order;
      std::vector<std::string> rf;
      m.all_rfields(c, rf);
      std::vector<std::pair<std::string, int>> of;
      m.all_ofields(c, of);
      size_t pos = 1;
      std::string args;
      std::vector<std::pair<int, size_t>> rf_owner; // (class, index of the field in that class), aligned with rf
      m.all_rfield_owners(c, rf_owner);
      for (size_t i = 0; i < rf.size(); ++i)
      {
        mpq_class v = q(op.arg(pos), op.arg(pos + 1), 9);
        pos += 2;
        if (i < rf_owner.size() && m.classes[rf_owner[i].first].rmode(rf_owner[i].second) == 2)
          v = m.classes[rf_owner[i].first].rfield_default(rf_owner[i].second); // no constructor parameter: the field initialiser decides
        in.rargs.push_back(v);
      }
      for (size_t i = 0; i < of.size(); ++i)
      {
        std::vector<int> cands;
        for (size_t j = 0; j < m.insts.size(); ++j)
          if (m.is_subclass(m.insts[j].cls, of[i].second))
            cands.push_back(static_cast<int>(j));
        if (cands.empty())
          return; // cannot build this instance yet
        in.oargs.push_back(cands[modn(op.arg(pos++), cands.size())]);
      }
      // constructor parameter order: see finalize() (reals of super..., objects of super..., then own)
      std::vector<std::string> al;
      ctor_args(m, c, in, al);
      for (auto &a : al)
        args += (args.empty() ? "" : ", ") + a;
      m.insts.push_back(in);
      for (size_t i = 0; i < rf.size(); ++i)
      {
        top.nums.push_back({in.name, rf[i]});
        planted[in.name + "." + rf[i]] = in.rargs[i];
      }
      top.objs.push_back({{in.name}, c});
      oplanted[in.name] = static_cast<int>(m.insts.size()) - 1;
      for (size_t i = 0; i < of.size(); ++i)
      {
        top.objs.push_back({{in.name, of[i].first}, of[i].second});
        oplanted[in.name + "." + of[i].first] = in.oargs[i];
      }
      decl(m.classes[c].name + " " + in.name + " = new " + m.classes[c].name + "(" + args + ");");
    }
    else if (n == "ovar")
    {
      if (m.classes.empty())
        return;
      int c = static_cast<int>(modn(op.arg(0), m.classes.size()));
      // (also over state-variable and agent classes: an atom stated on such a variable has an open tau, decided by the search)
      // an object variable needs at least one instance (otherwise the reader rejects it)
      bool any = false;
      for (auto &i : m.insts)
        if (m.is_subclass(i.cls, c))
          any = true;
      if (!any)
        return;
      OVarD v;
      v.cls = c;
      v.name = "v" + std::to_string(m.ovars.size());
      v.unit = m.unit;
      v.order = order;
      m.ovars.push_back(v);
      int chosen = -1;
      {
        std::vector<int> dom;
        for (size_t i = 0; i < m.insts.size(); ++i)
          if (m.is_subclass(m.insts[i].cls, c))
            dom.push_back(static_cast<int>(i));
        chosen = dom[modn(op.arg(1), dom.size())];
      }
      oplanted[v.name] = chosen;
      std::vector<std::string> rf;
      m.all_rfields(c, rf);
      for (auto &f : rf)
      {
        top.nums.push_back({v.name, f});
        auto it = planted.find(m.insts[chosen].name + "." + f);
        if (it != planted.end())
          planted[v.name + "." + f] = it->second;
      }
      top.objs.push_back({{v.name}, c});
      std::vector<std::pair<std::string, int>> of;
      m.all_ofields(c, of);
      for (auto &f : of)
      {
        top.objs.push_back({{v.name, f.first}, f.second});
        auto it = oplanted.find(m.insts[chosen].name + "." + f.first);
        if (it != oplanted.end())
          oplanted[v.name + "." + f.first] = it->second;
      }
      decl(m.classes[c].name + " " + v.name + ";");
    }
    else if (n == "enumt")
    {
      if (m.unit != 0 || m.enums.size() >= 3)
        return;
      EnumD e;
      int id = static_cast<int>(m.enums.size());
      e.name = "E" + std::to_string(id);
      long k = modn(op.arg(0), 3) + 1;
      for (long i = 0; i < k; ++i)
        e.vals.push_back("e" + std::to_string(id) + "_" + std::to_string(i));
      long inc = modn(op.arg(1), m.enums.size() + 2);
      if (inc >= 2)
        e.includes = static_cast<int>(inc) - 2;
      m.enums.push_back(e);
    }
    else if (n == "enumv")
    {
      if (m.enums.empty())
        return;
      EVarD v;
      v.en = static_cast<int>(modn(op.arg(0), m.enums.size()));
      v.name = "ev" + std::to_string(m.evars.size());
      m.evars.push_back(v);
      decl(m.enums[v.en].name + " " + v.name + ";");
    }
    else if (n == "rel")
    {
      size_t pos = 0;
      BP b = parse_rel(op, pos, top, false);
      if (b && (!b->l.t.empty() || !b->r.t.empty()))
      {
        if (planting(op.arg(pos + 1)))
          plant_rel(b, true, op.arg(pos));
        assert_stmt(b);
      }
    }
    else if (n == "bassert")
    {
      if (top.bools.empty())
        return;
      auto v = std::make_shared<B>();
      v->k = B::BVAR;
      v->p = top.bools[modn(op.arg(1), top.bools.size())];
      bool positive = op.arg(0) & 1;
      if (planting(op.arg(2)))
        positive = bplanted[ptext(v->p)];
      if (positive)
        assert_stmt(v);
      else
      {
        auto nb = std::make_shared<B>();
        nb->k = B::NOT;
        nb->sub = {v};
        assert_stmt(nb);
      }
    }
    else if (n == "logic")
    {
      long kind = modn(op.arg(0), 6);
      long cnt = modn(op.arg(1), 2) + 2;
      size_t pos = 2;
      std::vector<BP> subs;
      for (long i = 0; i < cnt; ++i)
      {
        long what = op.arg(pos++);
        BP s;
        if ((what & 3) == 0 && !top.bools.empty())
        {
          s = std::make_shared<B>();
          s->k = B::BVAR;
          s->p = top.bools[modn(what >> 2, top.bools.size())];
          size_t dummy = pos;
          parse_rel(op, dummy, top, true);
          pos = dummy;
        }
        else
          s = parse_rel(op, pos, top, true);
        if (!s)
          return;
        subs.push_back(s);
      }
      { // operands are a set: textual duplicates are dropped (the meaning of "exactly one of (b, b)" is not worth arguing about)
        std::vector<BP> uniq;
        for (auto &x : subs)
        {
          bool dup = false;
          for (auto &y : uniq)
            dup = dup || btext(x) == btext(y);
          if (!dup)
            uniq.push_back(x);
        }
        if (uniq.size() < 2 && kind != 5)
          return;
        if (kind == 2 && uniq.size() != subs.size())
          return;
        subs = uniq;
      }
      // '==' / '!=' bind weaker than the logical operators: such a relation cannot be the unparenthesised first operand
      if (kind != 5 && subs[0]->k == B::REL && (subs[0]->rel == EQ || subs[0]->rel == NEQ))
      {
        size_t j = 1;
        while (j < subs.size() && subs[j]->k == B::REL && (subs[j]->rel == EQ || subs[j]->rel == NEQ))
          ++j;
        if (kind != 2 && j < subs.size())
          std::swap(subs[0], subs[j]);
        else
          subs[0]->rel = LEQ;
      }
      {
        bool any_rel = false;
        for (auto &x : subs)
          any_rel = any_rel || x->k == B::REL;
        if ((kind == 3 && any_rel && q_undecided_relations) || (kind == 4 && q_disj_polarity))
        {
          ++quarantined;
          kind = 0; // falls back to a plain disjunction
        }
        if (kind == 4 && q_undecided_relations)
          for (auto &x : subs)
            if (x->k == B::REL && (x->rel == EQ || x->rel == NEQ))
            { // !(.. | x == y | ..) asks for a disequality of numbers, which nobody decides (KF-P1)
              x->rel = LEQ;
              ++quarantined;
            }
        if (kind == 5 && (q_disj_polarity || q_undecided_relations))
        { // b == (single relation or variable) stays outside both findings
          subs.resize(1);
          cnt = 1;
          if (q_undecided_relations && subs[0]->k == B::REL && (subs[0]->rel == EQ || subs[0]->rel == NEQ))
          { // b == (x == y) with b false is again a negated conjunction nobody decides
            subs[0]->rel = LEQ;
            ++quarantined;
          }
        }
      }
      size_t bv_pos = pos; // position of the trailing arguments
      std::string beq_var;
      bool beq_and = false;
      if (kind == 5)
      {
        if (top.bools.empty())
          return;
        beq_var = ptext(top.bools[modn(op.arg(bv_pos), top.bools.size())]);
        beq_and = cnt == 2 && (op.arg(bv_pos) & 4);
      }
      if (planting(op.arg(bv_pos + 2)))
      { // choose truth values for the relations so that the whole statement holds under the planted assignment
        std::vector<int> rel_idx;
        for (size_t i = 0; i < subs.size(); ++i)
          if (subs[i]->k == B::REL)
            rel_idx.push_back(static_cast<int>(i));
        unsigned pref = static_cast<unsigned>(modn(op.arg(bv_pos + 1), 8));
        auto holds = [&](const std::vector<bool> &t) -> bool
        {
          size_t nt = 0;
          for (bool x : t)
            nt += x;
          switch (kind)
          {
          case 0:
            return nt >= 1;
          case 1:
            return nt == t.size();
          case 2:
            return !(t[0] && !t[1]);
          case 3:
            return nt == 1;
          case 4:
            return nt == 0;
          default:
            return (beq_and ? nt == t.size() : nt >= 1) == bplanted[beq_var];
          }
        };
        bool found = false;
        for (unsigned k = 0; k < (1u << rel_idx.size()) && !found; ++k)
        {
          unsigned mask = (k ^ pref) & ((1u << rel_idx.size()) - 1);
          std::vector<bool> t(subs.size());
          for (size_t i = 0; i < subs.size(); ++i)
            t[i] = subs[i]->k == B::BVAR ? bplanted[ptext(subs[i]->p)] : false;
          for (size_t j = 0; j < rel_idx.size(); ++j)
            t[rel_idx[j]] = (mask >> j) & 1;
          if (kind == 2)
            t.resize(2);
          if (holds(t))
          {
            found = true;
            for (size_t j = 0; j < rel_idx.size(); ++j)
              plant_rel(subs[rel_idx[j]], (mask >> j) & 1, op.arg(bv_pos + 1) >> 3);
          }
        }
        if (!found)
          return;
      }
      auto b = std::make_shared<B>();
      switch (kind)
      {
      case 0:
        b->k = B::OR;
        b->sub = subs;
        break;
      case 1:
        b->k = B::AND;
        b->sub = subs;
        break;
      case 2:
        b->k = B::IMP;
        b->sub = {subs[0], subs[1]};
        break;
      case 3:
        b->k = B::XOR;
        b->sub = subs;
        break;
      case 4:
      { // negated disjunction
        auto o = std::make_shared<B>();
        o->k = B::OR;
        o->sub = subs;
        b->k = B::NOT;
        b->sub = {o};
        break;
      }
      default:
      { // boolean variable == (disjunction)
        if (top.bools.empty())
          return;
        auto v = std::make_shared<B>();
        v->k = B::BVAR;
        v->p = top.bools[modn(op.arg(pos), top.bools.size())];
        BP o;
        if (subs.size() == 1)
          o = subs[0];
        else
        {
          o = std::make_shared<B>();
          o->k = beq_and ? B::AND : B::OR;
          o->sub = subs;
        }
        if (o->k == B::BVAR && ptext(o->p) == ptext(v->p))
          return;
        b->k = B::BEQ;
        b->sub = {v, o};
        break;
      }
      }
      assert_stmt(b);
    }
    else if (n == "oeq")
    {
      if (top.objs.size() < 2)
        return;
      auto &a = top.objs[modn(op.arg(1), top.objs.size())];
      std::vector<size_t> cands;
      for (size_t i = 0; i < top.objs.size(); ++i)
        if (top.objs[i].first != a.first && m.root_of(top.objs[i].second) == m.root_of(a.second))
          cands.push_back(i);
      if ((op.arg(4) & 1) && a.first.size() == 2)
      { // prefer another field reached through the same variable / instance (`v.g0 != v.h0`)
        std::vector<size_t> same;
        for (size_t i : cands)
          if (top.objs[i].first.size() == 2 && top.objs[i].first[0] == a.first[0])
            same.push_back(i);
        if (!same.empty())
          cands = same;
      }
      if (cands.empty())
        return;
      auto &c = top.objs[cands[modn(op.arg(2), cands.size())]];
      auto b = std::make_shared<B>();
      b->k = (op.arg(0) & 1) ? B::OEQ : B::ONEQ;
      b->p = a.first;
      b->p2 = c.first;
      if (planting(op.arg(3)))
      {
        auto ia = oplanted.find(ptext(a.first)), ic = oplanted.find(ptext(c.first));
        if (ia != oplanted.end() && ic != oplanted.end())
          b->k = ia->second == ic->second ? B::OEQ : B::ONEQ;
      }
      assert_stmt(b);
    }
    else if (n == "eeq")
    {
      if (m.evars.size() < 2)
        return;
      auto &v = m.evars[modn(op.arg(1), m.evars.size())];
      std::vector<size_t> cands;
      auto related = [&](int e1, int e2)
      { return m.enum_related(e1, e2); };
      for (size_t i = 0; i < m.evars.size(); ++i)
        if (m.evars[i].name != v.name && related(m.evars[i].en, v.en))
          cands.push_back(i);
      if (cands.empty())
        return;
      auto &w = m.evars[cands[modn(op.arg(2), cands.size())]];
      auto b = std::make_shared<B>();
      b->k = (op.arg(0) & 1) ? B::OEQ : B::ONEQ;
      b->p = {v.name};
      b->p2 = {w.name};
      assert_stmt(b);
    }
    else if (n == "pred")
    {
      if (m.unit != 0 || m.preds.size() >= 4)
        return;
      PredD p;
      p.name = "P" + std::to_string(m.preds.size());
      p.kind = static_cast<int>(modn(op.arg(0), 3));
      long np = modn(op.arg(1), 3);
      for (long i = 0; i < np; ++i)
        p.rparams.push_back("a" + std::to_string(m.preds.size()) + "_" + std::to_string(i));
      m.preds.push_back(p);
    }
    else if (n == "spred")
    { // a predicate that extends an earlier global predicate: it inherits parameters, temporal kind and rule
      if (m.unit != 0 || m.preds.size() >= 5)
        return;
      std::vector<int> sup;
      for (size_t i = 0; i < m.preds.size(); ++i)
        if (m.preds[i].cls < 0)
          sup.push_back(static_cast<int>(i));
      if (sup.empty())
        return;
      PredD p;
      p.name = "P" + std::to_string(m.preds.size());
      p.super = sup[modn(op.arg(0), sup.size())];
      p.kind = m.preds[p.super].kind;
      if (p.kind == 0 && modn(op.arg(2), 3) != 0)
        p.kind = p.second_base_kind = static_cast<int>(modn(op.arg(2), 3)); // temporal through a second base predicate
      p.rparams = m.preds[p.super].rparams;
      p.own_from = p.rparams.size();
      if (modn(op.arg(1), 2))
        p.rparams.push_back("a" + std::to_string(m.preds.size()) + "_0");
      m.preds.push_back(p);
    }
    else if (n == "opred")
    { // a global predicate with an object-typed parameter over a plain class: `predicate P(real a, C1 ob)`; goals and facts give
      // an instance, an object variable (also of a super class: the reader keeps the values of the right type), or nothing
      // (then the parameter ranges over every instance of the class and its subclasses)
      if (m.unit != 0 || m.preds.size() >= 5)
        return;
      std::vector<int> pc;
      for (size_t i = 0; i < m.classes.size(); ++i)
        if (!m.classes[i].is_sv)
          pc.push_back(static_cast<int>(i));
      if (pc.empty())
        return;
      PredD p;
      p.name = "P" + std::to_string(m.preds.size());
      p.kind = static_cast<int>(modn(op.arg(1), 3));
      if (modn(op.arg(2), 2))
        p.rparams.push_back("a" + std::to_string(m.preds.size()) + "_0");
      p.oparam = "ob" + std::to_string(m.preds.size());
      p.oparam_cls = pc[modn(op.arg(0), pc.size())];
      { // the parameter's class gets an instance right away: a goal whose object parameter has no value at all trips an assertion
        // of the reader (type::new_existential), which is not what this workload is about
        bool any = false;
        for (auto &in : m.insts)
          if (m.is_subclass(in.cls, p.oparam_cls))
            any = true;
        if (!any && q_empty_object_domain)
        {
          Op io;
          io.name = "inst";
          io.a = {static_cast<long>(p.oparam_cls), 1, 0, 2, 0, 0, 0, 0, 0, 0, 0, 0};
          const size_t before = m.insts.size();
          apply(io);
          if (m.insts.size() == before)
            return;
        }
      }
      m.preds.push_back(p);
    }
    else if (n == "cpred")
    { // a predicate declared inside a plain (non smart-type) class, possibly temporal
      if (m.unit != 0 || m.preds.size() >= 5)
        return;
      std::vector<int> pc;
      for (size_t i = 0; i < m.classes.size(); ++i)
        if (!m.classes[i].is_sv)
          pc.push_back(static_cast<int>(i));
      if (pc.empty())
        return;
      PredD p;
      p.name = "CP" + std::to_string(m.preds.size());
      p.cls = pc[modn(op.arg(0), pc.size())];
      p.kind = static_cast<int>(modn(op.arg(1), 3));
      if (modn(op.arg(2), 2))
        p.rparams.push_back("a" + std::to_string(m.preds.size()) + "_0");
      m.classes[p.cls].preds.push_back(static_cast<int>(m.preds.size()));
      m.preds.push_back(p);
    }
    else if (n == "r_rel")
    {
      if (m.preds.empty() || m.unit != 0)
        return;
      int p = static_cast<int>(modn(op.arg(0), m.preds.size()));
      Scope &sc = scope_of_pred(p);
      size_t pos = 1;
      BP b = parse_rel(op, pos, sc, false);
      if (!b || (b->l.t.empty() && b->r.t.empty()))
        return;
      auto it = std::make_shared<BodyItem>();
      it->k = BodyItem::ASSERT;
      it->b = b;
      m.preds[p].body.push_back(it);
    }
    else if (n == "r_mul")
    { // `z == a * y` in the rule of a predicate with a parameter a: linear only because the goal fixes a (a constant argument);
      // the product is evaluated by the reader from the *current* value of the factor whose bounds coincide
      if (m.preds.empty() || m.unit != 0)
        return;
      std::vector<int> ps;
      for (size_t i = 0; i < m.preds.size(); ++i)
        if (!m.preds[i].rparams.empty())
          ps.push_back(static_cast<int>(i));
      if (ps.empty())
        return;
      int p = ps[modn(op.arg(0), ps.size())];
      // only while nothing has been stated on this predicate (or one extending it) yet: later goals, facts and sub-goals will fix the factor
      for (auto &st : m.stmts)
        if ((st.k == Stmt::FORMULA || st.k == Stmt::DISJ) && st.item)
        {
          if (st.k == Stmt::FORMULA && st.item->pred >= 0 && m.pred_extends(st.item->pred, p))
            return;
          for (auto &br : st.item->branches)
            for (auto &bi : br)
              if (bi->k == BodyItem::SUBGOAL && bi->pred >= 0 && m.pred_extends(bi->pred, p))
                return;
        }
      for (auto &q : m.preds)
        for (auto &bi : q.body)
          if (bi->k == BodyItem::SUBGOAL && bi->pred >= 0 && m.pred_extends(bi->pred, p))
            return;
      Scope &sc = scope_of_pred(p);
      std::vector<Path> others;
      for (auto &x : sc.nums)
        if (x.size() == 1 && std::find(m.preds[p].rparams.begin(), m.preds[p].rparams.end(), x[0]) == m.preds[p].rparams.end() && x[0].find('*') == std::string::npos)
          others.push_back(x);
      if (others.size() < 2)
        return;
      const std::string a = m.preds[p].rparams[modn(op.arg(1), m.preds[p].rparams.size())];
      const Path y = others[modn(op.arg(2), others.size())], z = others[modn(op.arg(3), others.size())];
      if (y == z)
        return;
      auto b = std::make_shared<B>();
      b->k = B::REL;
      b->rel = static_cast<int>(modn(op.arg(4), 3)) == 0 ? EQ : (modn(op.arg(4), 3) == 1 ? LEQ : GEQ);
      b->l.t.push_back({mpq_class(1), z});
      b->r.t.push_back({mpq_class(1), Path{a + "*" + y[0]}});
      auto it = std::make_shared<BodyItem>();
      it->k = BodyItem::ASSERT;
      it->b = b;
      m.preds[p].body.push_back(it);
      if (!m.param_fixed(p, a))
        m.preds[p].fixed_params.push_back(a);
    }
    else if (n == "r_logic")
    { // a disjunction of two relations in a rule body, over the rule's parameters and the global variables
      if (m.preds.empty() || m.unit != 0)
        return;
      int p = static_cast<int>(modn(op.arg(0), m.preds.size()));
      Scope &sc = scope_of_pred(p);
      size_t pos = 1;
      BP x = parse_rel(op, pos, sc, true), y = parse_rel(op, pos, sc, true);
      if (!x || !y || btext(x) == btext(y))
        return;
      for (auto &r : {x, y})
        if (r->rel == EQ || r->rel == NEQ)
          r->rel = LEQ; // '==' / '!=' bind weaker than '|'
      auto b = std::make_shared<B>();
      b->k = B::OR;
      b->sub = {x, y};
      auto it = std::make_shared<BodyItem>();
      it->k = BodyItem::ASSERT;
      it->b = b;
      m.preds[p].body.push_back(it);
    }
    else if (n == "r_goal")
    {
      if (m.preds.empty() || m.unit != 0)
        return;
      int p = static_cast<int>(modn(op.arg(0), m.preds.size()));
      if (op.arg(1) < 0 || op.arg(1) >= static_cast<long>(m.preds.size()))
        return; // no wrap-around: recursion only when the generator asks for it explicitly
      int qd = static_cast<int>(op.arg(1));
      if (m.preds[qd].cls != m.preds[p].cls && m.preds[qd].cls >= 0)
        return; // a class predicate is reachable without scope only from its own class
      for (int a = qd; a >= 0; a = m.preds[a].super)
        if (a == p && qd != p)
          return; // the sub-goal's predicate extends this one: its rule would contain this sub-goal again, without end
      int nsub = 0;
      for (auto &bi : m.preds[p].body)
        if (bi->k == BodyItem::SUBGOAL)
          ++nsub;
      if (nsub >= 2)
        return;
      Scope &sc = scope_of_pred(p);
      auto it = std::make_shared<BodyItem>();
      it->k = BodyItem::SUBGOAL;
      it->pred = qd;
      it->is_fact = false;
      it->local = "s" + std::to_string(m.n_locals++);
      size_t pos = 2;
      it->args = parse_args(op, pos, qd, sc);
      m.preds[p].body.push_back(it);
      // the sub-goal's parameters become numeric leaves of the rule scope
      for (auto &a : m.preds[qd].rparams)
        sc.nums.push_back({it->local, a});
    }
    else if (n == "goal" || n == "fact")
    {
      if (m.preds.empty())
        return;
      int p = static_cast<int>(modn(op.arg(0), m.preds.size()));
      auto it = std::make_shared<BodyItem>();
      it->k = BodyItem::SUBGOAL;
      it->pred = p;
      it->is_fact = n == "fact";
      it->local = (it->is_fact ? "f" : "g") + std::to_string(m.n_formulas++);
      size_t pos = 1;
      if (m.preds[p].cls >= 0)
      {
        std::vector<int> cands;
        for (size_t si = 0; si < m.insts.size(); ++si)
          if (m.is_subclass(m.insts[si].cls, m.preds[p].cls))
            cands.push_back(static_cast<int>(si));
        // the scope is an instance or, one time in three when there is one, an object variable over the class: the atom's
        // tau is then decided by the search (unification must respect it; placement/forbid resolvers of state variables)
        std::vector<std::string> vcands;
        for (auto &v : m.ovars)
            if (m.is_subclass(v.cls, m.preds[p].cls))
              vcands.push_back(v.name);
        if (!vcands.empty() && modn(op.arg(pos) / 7, 3) == 0)
          it->scope = {vcands[modn(op.arg(pos), vcands.size())]};
        else if (cands.empty())
          return;
        else
          it->scope = {m.insts[cands[modn(op.arg(pos), cands.size())]].name};
      }
      pos++;
      it->args = parse_args(op, pos, p, top);
      if (!m.preds[p].oparam.empty())
      { // the object parameter: an instance or object variable whose class is related to the parameter's (two times in three), or left open
        const int pc = m.preds[p].oparam_cls;
        bool any_inst = false;
        for (auto &in : m.insts)
          if (m.is_subclass(in.cls, pc))
            any_inst = true;
        if (!any_inst && q_empty_object_domain)
          return; // the reader cannot cope with a parameter without values (KF-P9)
        std::vector<const std::pair<Path, int> *> cands;
        for (auto &o : top.objs)
          if (o.first.size() == 1 && (m.is_subclass(o.second, pc) || m.is_subclass(pc, o.second)))
          {
            bool overlap = false; // some value of the path is a value of the parameter
            bool is_inst = false;
            for (auto &in : m.insts)
              if (in.name == o.first[0])
                is_inst = true, overlap = m.is_subclass(in.cls, pc);
            if (!is_inst)
              for (auto &in : m.insts)
                if (m.is_subclass(in.cls, o.second) && m.is_subclass(in.cls, pc))
                  overlap = true;
            if (overlap)
              cands.push_back(&o);
          }
        const long sel = op.arg(pos > 0 ? pos - 1 : 0) / 3 + static_cast<long>(m.n_formulas);
        if (!cands.empty() && modn(sel, 3) != 0)
        {
          Arg a;
          a.param = m.preds[p].oparam;
          a.is_obj = true;
          a.oval = cands[modn(sel / 3, cands.size())]->first;
          it->args.push_back(a);
          m.mention_root(a.oval[0]);
          m.oarg_use[a.oval[0]] = {pc, m.unit};
        }
      }
      // a parameter that is a factor of a product in the rule is fixed either by a constant argument or, every other time, by
      // a constraint stated right after the formula (then it is a variable whose bounds coincide when the rule is applied)
      std::vector<Arg> fixed_after;
      if (!it->is_fact && (m.n_formulas % 2) == 0)
        for (size_t i = 0; i < it->args.size();)
          if (m.param_fixed(p, it->args[i].param))
          {
            fixed_after.push_back(it->args[i]);
            it->args.erase(it->args.begin() + static_cast<long>(i));
          }
          else
            ++i;
      for (auto &a : it->args)
        if (!a.is_obj)
          mention(a.val);
      for (auto &sp : it->scope)
        m.mention_root(sp);
      Stmt s;
      s.k = Stmt::FORMULA;
      s.item = it;
      s.text = std::string(it->is_fact ? "fact " : "goal ") + it->local + " = new " + (it->scope.empty() ? "" : ptext(it->scope) + ".") + m.preds[p].name + "(" + args_text(it->args) + ");";
      m.stmts.push_back(s);
      ++order;
      for (auto &a : fixed_after)
      {
        auto b = std::make_shared<B>();
        b->k = B::REL;
        b->rel = EQ;
        b->l.t.push_back({mpq_class(1), Path{it->local, a.param}});
        b->r.k = a.val.k;
        assert_stmt(b);
        m.stmts.back().structural = true;
      }
      for (auto &a : m.preds[p].rparams)
        top.nums.push_back({it->local, a});
      // the temporal parameters of the atom can be constrained by later statements as well (`g0.start >= 2.0;`, `g1.end <= g0.start;`)
      if (p_interval(m.preds[p]))
      {
        top.nums.push_back({it->local, "start"});
        top.nums.push_back({it->local, "end"});
      }
      else if (p_impulse(m.preds[p]))
        top.nums.push_back({it->local, "at"});
    }
    else if (n == "cut")
    {
      Stmt s;
      s.k = Stmt::CUT;
      s.cut_mode = static_cast<int>(modn(op.arg(0), 2));
      m.stmts.push_back(s);
      ++m.unit;
    }
    else
      apply_timeline(op);
  }
} // namespace plan
