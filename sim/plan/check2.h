// PLAN engine oracles P1..P6 (DESIGN.md 3.2), evaluated after every solve() that reports success.
#pragma once
#include "check.h"
#include "json.h"

namespace plan
{
  inline void Checker::check_all(int units_read)
  {
    index_flaws();
    check_toplevel(units_read);
    check_rules();
    check_justification();
    check_temporal();
    check_objects(units_read);
    check_timelines();
  }

  // P1 (C01): every top-level constraint; P6 (C17): constructor arguments end up in the fields
  inline void Checker::check_toplevel(int units_read)
  {
    ratio::env *top = static_cast<ratio::core *>(&s);
    Locals none;
    int unit = 0;
    for (auto &st : m.stmts)
    {
      if (st.k == Stmt::CUT)
      {
        ++unit;
        continue;
      }
      if (unit >= units_read)
        break;
      if (st.k == Stmt::ASSERT)
      {
        int r = eval(st.b, top, none);
        cnt.inc("p1.toplevel_constraints");
        if (r == 0)
          viol("P1", "P1.toplevel_constraint", "solve() reported success but the asserted constraint `" + st.text + "` is false on the reported values");
        else if (r == 2)
          cnt.inc("p1.unevaluable");
      }
      else if (st.k == Stmt::DISJ)
      { // a necessary condition: the constraints of at least one disjunct hold on the reported values
        bool some = false;
        for (auto &br : st.item->branches)
        {
          bool all = true;
          for (auto &it : br)
            if (it->k == BodyItem::ASSERT && eval(it->b, top, none) == 0)
              all = false;
          some = some || all;
        }
        cnt.inc("p1.disjunction_statements");
        if (!some)
          viol("P1", "P1.disjunction_statement", "solve() reported success but no disjunct of `" + st.text + "` has its constraints satisfied by the reported values");
      }
      else if (st.k == Stmt::FORMULA)
      {
        auto *a = dynamic_cast<ratio::atom *>(resolve(top, none, {st.item->local}));
        if (!a)
        {
          cnt.inc("p1.formula_atom_missing");
          continue;
        }
        if (st.item->pred >= 0 && !m.preds[st.item->pred].oparam.empty() && sigma(*a) == smt::True)
        { // C17: the object parameter of an active atom denotes one instance of the parameter's class (or of a subclass) ...
          Locals la;
          ratio::item *pv = obj(a, la, {m.preds[st.item->pred].oparam});
          cnt.inc("p6.object_parameters");
          if (!pv)
            viol("P6", "P6.object_parameter_not_single", "`" + st.text + "`: the object parameter " + m.preds[st.item->pred].oparam + " of the active atom is not assigned to exactly one instance");
          else
          {
            bool ok = false;
            std::vector<const ratio::type *> q{&pv->get_type()};
            while (!q.empty())
            {
              const ratio::type *ty = q.back();
              q.pop_back();
              if (ty->get_name() == m.classes[m.preds[st.item->pred].oparam_cls].name)
                ok = true;
              for (auto *sup : ty->get_supertypes())
                q.push_back(sup);
            }
            if (!ok)
              viol("P6", "P6.object_parameter_domain", "`" + st.text + "`: the object parameter " + m.preds[st.item->pred].oparam + " takes an instance of " + pv->get_type().get_name() + ", which is not a " + m.classes[m.preds[st.item->pred].oparam_cls].name);
            // ... and, when an argument was given, the very object the argument denotes
            for (auto &arg : st.item->args)
              if (arg.is_obj)
              {
                ratio::item *av = obj(top, none, arg.oval);
                if (av && av != pv)
                  viol("P1", "P1.formula_argument", "`" + st.text + "`: the object parameter " + arg.param + " is not the object its argument " + ptext(arg.oval) + " denotes");
              }
          }
        }
        for (auto &arg : st.item->args)
        {
          Val pv, av;
          Locals la;
          if (arg.is_obj)
            continue;
          if (!num(a, la, {arg.param}, pv) || !lin(top, none, arg.val, av))
          {
            cnt.inc("p1.unevaluable");
            continue;
          }
          cnt.inc("p1.formula_args");
          if (vcmp(pv, av) != 0)
            viol("P1", "P1.formula_argument", "`" + st.text + "`: parameter " + arg.param + " is " + vtext(pv) + " but the argument evaluates to " + vtext(av));
        }
      }
    }
    for (auto &in : m.insts)
    {
      if (in.unit >= units_read || m.classes[in.cls].is_sv)
        continue;
      std::vector<std::string> rf;
      m.all_rfields(in.cls, rf);
      std::vector<std::pair<int, size_t>> owners;
      m.all_rfield_owners(in.cls, owners);
      for (size_t i = 0; i < rf.size(); ++i)
      {
        Val v;
        if (i < owners.size() && m.classes[owners[i].first].rmode(owners[i].second) == 3)
          continue; // a free field: any value
        if (!num(top, none, {in.name, rf[i]}, v))
        {
          viol("P6", "P6.field_missing", "field " + in.name + "." + rf[i] + " cannot be read back");
          continue;
        }
        cnt.inc("p6.constructor_fields");
        if (v.r != in.rargs[i] || v.e != 0)
          viol("P6", "P6.constructor_field", in.name + "." + rf[i] + " is " + vtext(v) + " but the constructor was given " + in.rargs[i].get_str());
      }
      std::vector<std::pair<std::string, int>> of;
      m.all_ofields(in.cls, of);
      for (size_t i = 0; i < of.size(); ++i)
      {
        ratio::item *a = obj(top, none, {in.name, of[i].first}), *b = obj(top, none, {m.insts[in.oargs[i]].name});
        cnt.inc("p6.constructor_fields");
        if (!a || !b || a != b)
          viol("P6", "P6.constructor_field", in.name + "." + of[i].first + " is not the instance " + m.insts[in.oargs[i]].name + " given to the constructor");
      }
    }
  }

  // P1 (C01): rule bodies of active goals, with their sub-goals identified through the causal graph
  inline void Checker::check_rules()
  {
    for (auto *af : aflaws)
    {
      ratio::atom &a = af->get_atom();
      if (lval(af->get_phi()) != smt::True || sigma(a) != smt::True || af->is_fact)
        continue;
      const PredD *pd = pred_of(a);
      if (!pd)
        continue;
      const ratio::resolver *act = activate_res(af);
      if (!act || lval(act->get_rho()) != smt::True)
        continue; // judged by P2
      cnt.inc("p1.active_goals");
      Locals loc;
      auto kit = children.find(&a);
      std::vector<ratio::atom *> kids = kit == children.end() ? std::vector<ratio::atom *>() : kit->second;
      size_t ki = 0;
      for (auto &bi : m.eff_body(*pd))
      {
        if (bi->k == BodyItem::SUBGOAL)
        {
          if (ki >= kids.size())
          {
            viol("P1", "P1.subgoal_missing", "active goal " + aname(a) + ": the sub-goal `" + bi->local + "` of its rule was never created");
            break;
          }
          ratio::atom *c = kids[ki++];
          loc[bi->local] = c;
          cnt.inc("p1.subgoals");
          auto cf = flaw_of.find(c);
          if (c->get_type().get_name() != (bi->pred == -2 ? std::string("Use") : m.preds[bi->pred].name))
            viol("P1", "P1.subgoal_wrong_predicate", "sub-goal " + bi->local + " of " + aname(a) + " has predicate " + c->get_type().get_name());
          if (cf == flaw_of.end() || lval(cf->second->get_phi()) != smt::True || sigma(*c) == smt::Undefined)
            viol("P1", "P1.subgoal_not_in_plan", "active goal " + aname(a) + ": its sub-goal " + aname(*c) + " is not part of the plan");
          for (auto &arg : bi->args)
          {
            Val pv, av;
            Locals lc;
            if (!num(c, lc, {arg.param}, pv) || !lin(&a, loc, arg.val, av))
            {
              cnt.inc("p1.unevaluable");
              continue;
            }
            if (vcmp(pv, av) != 0)
              viol("P1", "P1.subgoal_argument", "sub-goal " + aname(*c) + " of " + aname(a) + ": " + arg.param + " is " + vtext(pv) + " but the argument evaluates to " + vtext(av));
          }
        }
        else if (bi->k == BodyItem::ASSERT)
        {
          int r = eval(bi->b, &a, loc);
          cnt.inc("p1.rule_constraints");
          if (r == 0)
            viol("P1", "P1.rule_constraint", "active goal " + aname(a) + ": the constraint `" + btext(bi->b) + "` of its rule is false on the reported values");
          else if (r == 2)
            cnt.inc("p1.unevaluable");
        }
      }
    }
  }

  // P2 (C03): justification and acyclic causal support
  inline void Checker::check_justification()
  {
    std::map<const ratio::atom *, std::vector<const ratio::atom *>> edges;
    std::set<std::pair<const ratio::atom *, const ratio::atom *>> unif_edges;
    for (auto *af : aflaws)
    {
      ratio::atom &a = af->get_atom();
      if (lval(af->get_phi()) != smt::True)
        continue;
      cnt.inc("p2.atoms_in_plan");
      smt::lbool sg = sigma(a);
      if (sg == smt::Undefined)
      {
        viol("P2", "P2.unjustified", "atom " + aname(a) + " is required by the plan (its flaw is active) but is neither active nor unified");
        continue;
      }
      if (sg == smt::True)
      {
        const ratio::resolver *act = activate_res(af);
        if (!act || lval(act->get_rho()) != smt::True)
        {
          viol("P2", "P2.active_without_activation", "atom " + aname(a) + " is active but its activation resolver is not applied");
          continue;
        }
        auto kit = children.find(&a);
        if (kit != children.end())
          for (auto *c : kit->second)
            edges[&a].push_back(c);
      }
      else
      {
        cnt.inc("p2.unified_atoms");
        const ratio::resolver *ur = nullptr;
        int n_true = 0;
        for (auto *r : af->get_resolvers())
          if (ratio::is_unification(*r) && lval(r->get_rho()) == smt::True)
          {
            ur = r;
            ++n_true;
          }
        if (!ur)
        {
          viol("P2", "P2.unified_without_target", "atom " + aname(a) + " is marked unified but no unification resolver is applied");
          continue;
        }
        std::string d = ur->get_data();
        size_t tp = d.find("\"target\":\"");
        const ratio::atom *t = nullptr;
        if (tp != std::string::npos)
        {
          uintptr_t id = strtoull(d.c_str() + tp + 10, nullptr, 10);
          for (auto &p : flaw_of)
            if (p.first->get_id() == id)
              t = p.first;
        }
        if (!t)
        {
          cnt.inc("p2.target_unparsed");
          continue;
        }
        if (sigma(*t) != smt::True)
          viol("P2", "P2.target_not_active", "atom " + aname(a) + " is unified with " + aname(*t) + " which is not active");
        if (&t->get_type() != &a.get_type())
          viol("P2", "P2.target_other_predicate", "atom " + aname(a) + " is unified with an atom of predicate " + t->get_type().get_name());
        const PredD *pd = pred_of(a);
        std::vector<std::string> names;
        if (pd)
          names = pd->rparams;
        for (const char *tn : {"start", "end", "duration", "at", "amount"})
          if (step(&a, tn))
            names.push_back(tn);
        for (auto &nm : names)
        {
          Val x, y;
          Locals lc;
          if (num(&a, lc, {nm}, x) && num(const_cast<ratio::atom *>(t), lc, {nm}, y) && vcmp(x, y) != 0)
            viol("P2", "P2.unified_arguments_differ", "atom " + aname(a) + " is unified with " + aname(*t) + " but " + nm + " is " + vtext(x) + " vs " + vtext(y));
        }
        if (step(&a, "tau"))
        {
          Locals lc;
          ratio::item *x = obj(&a, lc, {"tau"}), *y = obj(const_cast<ratio::atom *>(t), lc, {"tau"});
          if (x && y && x != y)
            viol("P2", "P2.unified_arguments_differ", "atom " + aname(a) + " is unified with " + aname(*t) + " but they are on different instances");
        }
        edges[&a].push_back(t);
        unif_edges.insert({&a, t});
        unified_pairs.push_back({&a, t});
      }
    }
    // any cycle in (sub-goal edges + unification edges) necessarily passes through a unification edge
    std::map<const ratio::atom *, int> color;
    std::function<bool(const ratio::atom *)> dfs = [&](const ratio::atom *u) -> bool
    {
      color[u] = 1;
      for (auto *v : edges[u])
      {
        if (color[v] == 1)
          return true;
        if (color[v] == 0 && dfs(v))
          return true;
      }
      color[u] = 2;
      return false;
    };
    for (auto &p : edges)
      if (color[p.first] == 0 && dfs(p.first))
      {
        viol("P2", "P2.causal_cycle", "the causal support of the plan is cyclic: an atom is supported, through unification, by an atom it gave rise to");
        break;
      }
  }

  // P5 (C06): temporal well-formedness of active atoms
  inline void Checker::check_temporal()
  {
    ratio::env *top = static_cast<ratio::core *>(&s);
    Locals none;
    Val origin, horizon;
    if (!num(top, none, {"origin"}, origin) || !num(top, none, {"horizon"}, horizon))
      return;
    for (auto *af : aflaws)
    {
      ratio::atom &a = af->get_atom();
      if (lval(af->get_phi()) != smt::True || sigma(a) != smt::True)
        continue;
      Val st, en, du, at;
      if (step(&a, "start") && num(&a, none, {"start"}, st) && num(&a, none, {"end"}, en))
      {
        cnt.inc("p5.interval_atoms");
        if (vcmp(origin, st) > 0 || vcmp(st, en) > 0 || vcmp(en, horizon) > 0)
          viol("P5", "P5.interval_bounds", "active atom " + aname(a) + ": origin=" + vtext(origin) + " start=" + vtext(st) + " end=" + vtext(en) + " horizon=" + vtext(horizon) + " are not ordered");
        if (num(&a, none, {"duration"}, du))
        {
          Val d2;
          d2.r = en.r - st.r;
          d2.e = en.e - st.e;
          Val zero;
          if (vcmp(du, d2) != 0 || vcmp(du, zero) < 0)
            viol("P5", "P5.duration", "active atom " + aname(a) + ": duration=" + vtext(du) + " but end-start=" + vtext(d2));
        }
      }
      else if (step(&a, "at") && num(&a, none, {"at"}, at))
      {
        cnt.inc("p5.impulse_atoms");
        if (vcmp(origin, at) > 0 || vcmp(at, horizon) > 0)
          viol("P5", "P5.impulse_bounds", "active atom " + aname(a) + ": at=" + vtext(at) + " outside [" + vtext(origin) + "," + vtext(horizon) + "]");
      }
    }
  }

  // P6 (C17): object / enum variables take exactly one value, inside the domain they were declared with
  inline void Checker::check_objects(int units_read)
  {
    ratio::env *top = static_cast<ratio::core *>(&s);
    Locals none;
    std::map<ratio::item *, int> inst_of;
    for (size_t i = 0; i < m.insts.size(); ++i)
      if (m.insts[i].unit < units_read)
        if (ratio::item *it = resolve(top, none, {m.insts[i].name}))
          inst_of[it] = static_cast<int>(i);
    for (auto &v : m.ovars)
    {
      if (v.unit >= units_read)
        continue;
      auto *vi = dynamic_cast<ratio::var_item *>(resolve(top, none, {v.name}));
      ratio::item *single = nullptr;
      cnt.inc("p6.object_variables");
      if (vi)
      {
        auto vals = s.enum_value(ratio::var_expr(vi));
        if (vals.size() != 1)
        {
          viol("P6", "P6.not_exactly_one_value", "object variable " + v.name + " has " + std::to_string(vals.size()) + " values in the reported solution");
          continue;
        }
        single = static_cast<ratio::item *>(*vals.begin());
      }
      else
        single = resolve(top, none, {v.name}); // a one-instance domain is represented by the instance itself
      auto it = inst_of.find(single);
      if (it == inst_of.end())
      {
        viol("P6", "P6.value_not_an_instance", "object variable " + v.name + " takes a value that is not a declared instance");
        continue;
      }
      const InstD &in = m.insts[it->second];
      if (!m.is_subclass(in.cls, v.cls) || in.order > v.order)
        viol("P6", "P6.value_outside_domain", "object variable " + v.name + " (" + m.classes[v.cls].name + ") takes " + in.name + " (" + m.classes[in.cls].name + (in.order > v.order ? ", created after the variable" : "") + ")");
    }
    for (auto &v : m.evars)
    {
      ratio::item *it = obj(top, none, {v.name});
      auto *si = dynamic_cast<ratio::string_item *>(it);
      cnt.inc("p6.enum_variables");
      if (!si)
      {
        if (resolve(top, none, {v.name}))
          viol("P6", "P6.enum_not_exactly_one_value", "enum variable " + v.name + " does not have exactly one value in the reported solution");
        continue;
      }
      std::vector<std::string> vals;
      for (auto &x : m.enum_values(v.en))
        vals.push_back(x.second);
      if (std::find(vals.begin(), vals.end(), si->get_value()) == vals.end())
        viol("P6", "P6.enum_value_outside_domain", "enum variable " + v.name + " takes \"" + si->get_value() + "\"");
    }
  }

  // P6 (C17): right after reading, an object / enum variable no constraint mentions ranges over exactly the
  // instances (values) that existed when it was declared
  inline void Checker::check_domains_after_read(int units_read)
  {
    ratio::env *top = static_cast<ratio::core *>(&s);
    Locals none;
    std::map<ratio::item *, int> inst_of;
    for (size_t i = 0; i < m.insts.size(); ++i)
      if (m.insts[i].unit < units_read)
        if (ratio::item *it = resolve(top, none, {m.insts[i].name}))
          inst_of[it] = static_cast<int>(i);
    for (auto &v : m.ovars)
    {
      // not mentioned at all, or mentioned exactly once: as the object argument of a goal/fact whose parameter has class pc (then
      // only the values that are instances of pc remain - of pc AND ITS SUBCLASSES)
      int only_pc = -1;
      if (m.mentioned.count(v.name))
      {
        auto cnt_it = m.mention_count.find(v.name);
        auto use = m.oarg_use.find(v.name);
        if (cnt_it == m.mention_count.end() || cnt_it->second != 1 || use == m.oarg_use.end() || use->second.second >= units_read)
          continue;
        only_pc = use->second.first;
      }
      if (v.unit >= units_read)
        continue;
      std::set<int> expect, got;
      for (size_t i = 0; i < m.insts.size(); ++i)
        if (m.is_subclass(m.insts[i].cls, v.cls) && m.insts[i].order < v.order && (only_pc < 0 || m.is_subclass(m.insts[i].cls, only_pc)))
          expect.insert(static_cast<int>(i));
      if (only_pc >= 0)
        cnt.inc("p6.domains_restricted_by_parameter");
      ratio::item *it = resolve(top, none, {v.name});
      if (!it)
        continue;
      bool unknown = false;
      if (auto *vi = dynamic_cast<ratio::var_item *>(it))
      {
        for (auto *x : s.enum_value(ratio::var_expr(vi)))
        {
          auto f = inst_of.find(static_cast<ratio::item *>(x));
          if (f == inst_of.end())
            unknown = true;
          else
            got.insert(f->second);
        }
      }
      else
      {
        auto f = inst_of.find(it);
        if (f == inst_of.end())
          unknown = true;
        else
          got.insert(f->second);
      }
      cnt.inc("p6.domains_checked_exactly");
      if (unknown || got != expect)
      {
        std::string a, b;
        for (int i : expect)
          a += " " + m.insts[i].name;
        for (int i : got)
          b += " " + m.insts[i].name;
        viol("P6", "P6.domain_not_exact", "object variable " + v.name + " (" + m.classes[v.cls].name + ") ranges over {" + b + (unknown ? " <not an instance>" : "") + " } but the instances existing at its declaration" + (only_pc >= 0 ? " that are instances of " + m.classes[only_pc].name + " (the parameter it is given to)" : std::string()) + " are {" + a + " }");
      }
    }
    for (auto &v : m.evars)
    {
      if (m.mentioned.count(v.name))
        continue;
      std::set<std::string> expect, got;
      for (auto &x : m.enum_values(v.en))
        expect.insert(x.second);
      ratio::item *it = resolve(top, none, {v.name});
      if (!it)
        continue;
      if (auto *vi = dynamic_cast<ratio::var_item *>(it))
      {
        for (auto *x : s.enum_value(ratio::var_expr(vi)))
          if (auto *si = dynamic_cast<ratio::string_item *>(static_cast<ratio::item *>(x)))
            got.insert(si->get_value());
      }
      else if (auto *si = dynamic_cast<ratio::string_item *>(it))
        got.insert(si->get_value());
      cnt.inc("p6.enum_domains_checked_exactly");
      if (got != expect)
        viol("P6", "P6.enum_domain_not_exact", "enum variable " + v.name + " of " + m.enums[v.en].name + " ranges over " + std::to_string(got.size()) + " values but the enum declares/includes " + std::to_string(expect.size()));
    }
  }

  // P3 (C04) and P4 (C05): state variables and reusable resources, from the atoms and from the extracted timelines
  inline void Checker::check_timelines()
  {
    ratio::env *top = static_cast<ratio::core *>(&s);
    Locals none;
    struct TA
    {
      ratio::atom *a;
      Val st, en, amount;
    };
    std::map<ratio::item *, std::vector<TA>> on_sv, on_rr, on_ag;
    for (auto *af : aflaws)
    {
      ratio::atom &a = af->get_atom();
      if (lval(af->get_phi()) != smt::True || sigma(a) != smt::True || !step(&a, "tau"))
        continue;
      ratio::item *tau = obj(&a, none, {"tau"});
      TA t;
      t.a = &a;
      if (!tau)
      {
        viol("P3", "P3.tau_not_single", "active atom " + aname(a) + " is not assigned to exactly one instance");
        continue;
      }
      {
        bool is_ag = false;
        std::vector<const ratio::type *> q{&tau->get_type()};
        while (!q.empty())
        {
          const ratio::type *ty = q.back();
          q.pop_back();
          if (ty->get_name() == "Agent")
            is_ag = true;
          for (auto *st : ty->get_supertypes())
            q.push_back(st);
        }
        Val when;
        if (is_ag && (num(&a, none, {"start"}, when) || num(&a, none, {"at"}, when)))
        {
          t.st = when;
          on_ag[tau].push_back(t);
          continue;
        }
      }
      if (!num(&a, none, {"start"}, t.st) || !num(&a, none, {"end"}, t.en))
        continue;
      if (a.get_type().get_name() == "Use")
      {
        if (num(&a, none, {"amount"}, t.amount))
          on_rr[tau].push_back(t);
      }
      else
      { // only instances of (subclasses of) StateVariable exclude overlaps; a predicate of a plain class has a tau as well
        bool is_sv = false;
        std::vector<const ratio::type *> q{&tau->get_type()};
        while (!q.empty())
        {
          const ratio::type *ty = q.back();
          q.pop_back();
          if (ty->get_name() == "StateVariable")
            is_sv = true;
          for (auto *st : ty->get_supertypes())
            q.push_back(st);
        }
        if (is_sv)
          on_sv[tau].push_back(t);
      }
    }
    for (auto &p : on_sv)
    {
      auto &v = p.second;
      for (size_t i = 0; i < v.size(); ++i)
        for (size_t j = 0; j < v.size(); ++j)
          if (i != j && vcmp(v[i].st, v[i].en) == 0 && vcmp(v[j].st, v[i].st) < 0 && vcmp(v[i].st, v[j].en) < 0)
            nested_zero_length = true; // an empty interval strictly inside another atom: legal, but no ordering resolver leads there
      for (size_t i = 0; i < v.size(); ++i)
        for (size_t j = i + 1; j < v.size(); ++j)
        {
          cnt.inc("p3.pairs");
          const Val &ms = vcmp(v[i].st, v[j].st) > 0 ? v[i].st : v[j].st;
          const Val &me = vcmp(v[i].en, v[j].en) < 0 ? v[i].en : v[j].en;
          if (vcmp(ms, me) < 0)
            viol("P3", "P3.overlap", "atoms " + aname(*v[i].a) + " [" + vtext(v[i].st) + "," + vtext(v[i].en) + ") and " + aname(*v[j].a) + " [" + vtext(v[j].st) + "," + vtext(v[j].en) + ") overlap on the same state variable");
        }
    }
    std::map<ratio::item *, Val> cap_of;
    for (size_t i = 0; i < m.rr_names.size(); ++i)
      if (ratio::item *it = resolve(top, none, {m.rr_names[i]}))
      { // the capacity as given: a constant c, or c - x at the reported value of x
        Val cv;
        cv.r = m.rr_caps[i];
        if (!m.rr_cap_var[i].empty())
        {
          Val xv;
          if (!num(top, none, {m.rr_cap_var[i]}, xv))
            continue;
          cv.r -= xv.r;
          cv.e -= xv.e;
        }
        cap_of[it] = cv;
      }
    for (auto &p : on_rr)
    {
      auto cit = cap_of.find(p.first);
      if (cit == cap_of.end())
        continue;
      auto &v = p.second;
      for (size_t i = 0; i < v.size(); ++i)
      { // usage right at the start pulse of atom i
        if (vcmp(v[i].st, v[i].en) >= 0)
          continue; // zero-length atoms cover no instant
        Val sum;
        for (size_t j = 0; j < v.size(); ++j)
          if (vcmp(v[j].st, v[i].st) <= 0 && vcmp(v[i].st, v[j].en) < 0)
          {
            sum.r += v[j].amount.r;
            sum.e += v[j].amount.e;
          }
        cnt.inc("p4.pulses");
        const Val &cap = cit->second;
        if (vcmp(sum, cap) > 0)
          viol("P4", "P4.capacity_exceeded", "reusable resource: at " + vtext(v[i].st) + " the active Use atoms need " + vtext(sum) + " but the capacity is " + vtext(cap));
      }
    }
    // the extracted timelines must tell the same story
    smt::json tls = s.extract_timelines();
    auto *arr = dynamic_cast<smt::array_val *>(&*tls);
    if (!arr)
      return;
    auto qv = [](smt::json j, Val &v) -> bool
    {
      if (!j->has("num") || !j->has("den"))
        return false;
      auto *n = dynamic_cast<smt::long_val *>(&*j->get("num")), *d = dynamic_cast<smt::long_val *>(&*j->get("den"));
      if (!n || !d || d->get() == 0)
        return false;
      v.r = mpq_class(n->get(), d->get());
      v.r.canonicalize();
      v.e = 0;
      if (j->has("inf"))
      {
        smt::json k = j->get("inf");
        auto *n2 = dynamic_cast<smt::long_val *>(&*k->get("num")), *d2 = dynamic_cast<smt::long_val *>(&*k->get("den"));
        if (n2 && d2 && d2->get() != 0)
        {
          v.e = mpq_class(n2->get(), d2->get());
          v.e.canonicalize();
        }
      }
      return true;
    };
    for (size_t i = 0; i < arr->size(); ++i)
    {
      smt::json tl = arr->get(i);
      if (!tl->has("type") || !tl->has("values") || !tl->has("id"))
        continue;
      std::string type = dynamic_cast<smt::string_val *>(&*tl->get("type"))->get();
      uintptr_t id = static_cast<uintptr_t>(dynamic_cast<smt::long_val *>(&*tl->get("id"))->get());
      auto *vals = dynamic_cast<smt::array_val *>(&*tl->get("values"));
      if (!vals)
        continue;
      std::vector<TA> *atoms = nullptr;
      for (auto &p : (type == "StateVariable" ? on_sv : on_rr))
        if (p.first->get_id() == id)
          atoms = &p.second;
      if (type == "Agent")
      { // an agent's timeline: the ids of exactly its active atoms, by start (or at) time
        std::vector<TA> *ag = nullptr;
        for (auto &p : on_ag)
          if (p.first->get_id() == id)
            ag = &p.second;
        std::set<uintptr_t> listed, expect;
        std::vector<uintptr_t> order;
        for (size_t k = 0; k < vals->size(); ++k)
          if (auto *lv = dynamic_cast<smt::long_val *>(&*vals->get(k)))
            listed.insert(static_cast<uintptr_t>(lv->get())), order.push_back(static_cast<uintptr_t>(lv->get()));
        if (ag)
          for (auto &t : *ag)
            expect.insert(t.a->get_id());
        cnt.inc("agent_timelines");
        if (listed != expect)
          viol("P5", "P5.agent_timeline_atoms", "the extracted timeline of an agent lists " + std::to_string(listed.size()) + " atoms but " + std::to_string(expect.size()) + " active atoms are on that agent");
        else if (ag)
          for (size_t k = 0; k + 1 < order.size(); ++k)
          {
            const TA *x = nullptr, *y = nullptr;
            for (auto &t : *ag)
            {
              if (t.a->get_id() == order[k])
                x = &t;
              if (t.a->get_id() == order[k + 1])
                y = &t;
            }
            if (x && y && vcmp(x->st, y->st) > 0)
              viol("P5", "P5.agent_timeline_order", "the extracted timeline of an agent lists " + aname(*x->a) + " (at " + vtext(x->st) + ") before " + aname(*y->a) + " (at " + vtext(y->st) + ")");
          }
        continue;
      }
      if (type != "StateVariable" && type != "ReusableResource")
        continue;
      for (size_t k = 0; k < vals->size(); ++k)
      {
        smt::json seg = vals->get(k);
        Val from, to;
        if (!seg->has("from") || !seg->has("to") || !qv(seg->get("from"), from) || !qv(seg->get("to"), to))
          continue;
        std::set<uintptr_t> listed, expect;
        if (seg->has("atoms"))
          if (auto *la = dynamic_cast<smt::array_val *>(&*seg->get("atoms")))
            for (size_t q = 0; q < la->size(); ++q)
              listed.insert(static_cast<uintptr_t>(dynamic_cast<smt::long_val *>(&*la->get(q))->get()));
        if (atoms)
          for (auto &t : *atoms)
            if (vcmp(t.st, from) <= 0 && vcmp(to, t.en) <= 0 && vcmp(t.st, t.en) < 0)
              expect.insert(t.a->get_id());
        cnt.inc("p34.timeline_segments");
        if (vcmp(from, to) >= 0)
          continue;
        if (type == "StateVariable" && listed.size() > 1)
          viol("P3", "P3.timeline_segment", "the extracted state-variable timeline shows " + std::to_string(listed.size()) + " atoms between " + vtext(from) + " and " + vtext(to));
        if (listed != expect)
          viol(type == "StateVariable" ? "P3" : "P4", std::string(type == "StateVariable" ? "P3" : "P4") + ".timeline_atoms", "the extracted timeline lists " + std::to_string(listed.size()) + " atoms between " + vtext(from) + " and " + vtext(to) + " but " + std::to_string(expect.size()) + " active atoms cover that segment");
        if (type == "ReusableResource" && seg->has("usage"))
        {
          Val u, sum;
          if (qv(seg->get("usage"), u) && atoms)
          {
            for (auto &t : *atoms)
              if (expect.count(t.a->get_id()))
              {
                sum.r += t.amount.r;
                sum.e += t.amount.e;
              }
            if (vcmp(u, sum) != 0)
              viol("P4", "P4.timeline_usage", "the extracted timeline reports usage " + vtext(u) + " between " + vtext(from) + " and " + vtext(to) + " but the covering atoms sum to " + vtext(sum));
          }
        }
      }
    }
  }
} // namespace plan
