// Builder, second part: constructor arguments, timeline ops (state variables, reusable resources),
// and finalisation (declaration text, compilation units).
#pragma once
#include "build.h"

namespace plan
{
  // constructor parameters of class c: those of the super class, then own real fields, then own object field
  inline void ctor_params(const Model &m, int c, std::vector<std::pair<std::string, std::string>> &out) // (type, name)
  {
    if (c < 0)
      return;
    ctor_params(m, m.classes[c].super, out);
    for (size_t i = 0; i < m.classes[c].rfields.size(); ++i)
      if (m.classes[c].rmode(i) < 2)
        out.push_back({"real", "p_" + m.classes[c].rfields[i]});
    if (m.classes[c].ofield_class >= 0)
      out.push_back({m.classes[m.classes[c].ofield_class].name, "p_g" + std::to_string(c)});
    if (m.classes[c].ofield_class >= 0 && m.classes[c].ofield_twice)
      out.push_back({m.classes[m.classes[c].ofield_class].name, "p_h" + std::to_string(c)});
  }
  inline void Builder_ctor_walk(const Model &m, int c, const InstD &in, size_t &ri, size_t &oi, std::vector<std::string> &out)
  {
    if (c < 0)
      return;
    Builder_ctor_walk(m, m.classes[c].super, in, ri, oi, out);
    for (size_t i = 0; i < m.classes[c].rfields.size(); ++i)
    {
      const mpq_class &v = in.rargs[ri++];
      if (m.classes[c].rmode(i) < 2)
        out.push_back((sgn(v) < 0 ? "-" : "") + qtext(v));
    }
    if (m.classes[c].ofield_class >= 0)
      out.push_back(m.insts[in.oargs[oi++]].name);
    if (m.classes[c].ofield_class >= 0 && m.classes[c].ofield_twice)
      out.push_back(m.insts[in.oargs[oi++]].name);
  }
  inline void ctor_args(const Model &m, int c, const InstD &in, std::vector<std::string> &out)
  {
    size_t ri = 0, oi = 0;
    Builder_ctor_walk(m, c, in, ri, oi, out);
  }

  inline void Builder::apply_timeline(const Op &op)
  {
    const std::string &n = op.name;
    if (n == "svclass")
    {
      if (m.unit != 0 || m.classes.size() >= 5)
        return;
      ClassD c;
      int id = static_cast<int>(m.classes.size());
      c.name = "S" + std::to_string(id);
      c.is_sv = true;
      c.is_agent = (op.arg(3) & 1) != 0; // `class A : Agent`: same plumbing (instances, tau, facts get the temporal rule), no mutual exclusion
      if ((op.arg(2) & 1) && !c.is_agent)
      { // extends an earlier state-variable class (and through it StateVariable) instead of StateVariable directly
        std::vector<int> sup;
        for (size_t i = 0; i < m.classes.size(); ++i)
          if (m.classes[i].is_sv && !m.classes[i].is_agent)
            sup.push_back(static_cast<int>(i));
        if (!sup.empty())
          c.super = sup[modn(op.arg(2) >> 1, sup.size())];
      }
      long np = modn(op.arg(0), 2) + 1;
      for (long i = 0; i < np; ++i)
      {
        PredD p;
        p.name = "SP" + std::to_string(m.preds.size());
        p.cls = id;
        p.kind = c.is_agent && ((op.arg(3) >> (1 + i)) & 1) ? 2 : 1;
        if ((op.arg(1) >> i) & 1)
          p.rparams.push_back("a" + std::to_string(m.preds.size()) + "_0");
        c.preds.push_back(static_cast<int>(m.preds.size()));
        m.preds.push_back(p);
      }
      m.classes.push_back(c);
    }
    else if (n == "svinst")
    {
      std::vector<int> svc;
      for (size_t i = 0; i < m.classes.size(); ++i)
        if (m.classes[i].is_sv)
          svc.push_back(static_cast<int>(i));
      if (svc.empty() || m.sv_insts.size() >= 3)
        return;
      InstD in;
      in.cls = svc[modn(op.arg(0), svc.size())];
      in.name = "o" + std::to_string(m.insts.size());
      in.unit = m.unit;
      in.order = order;
      m.sv_insts.push_back(static_cast<int>(m.insts.size()));
      m.insts.push_back(in);
      top.objs.push_back({{in.name}, in.cls});
      decl(m.classes[in.cls].name + " " + in.name + " = new " + m.classes[in.cls].name + "();");
    }
    else if (n == "rr")
    {
      if (m.rr_names.size() >= 2)
        return;
      static const char *caps[] = {"0", "1", "5/2", "10", "4", "3"};
      mpq_class cap(caps[modn(op.arg(0), 6)]);
      std::string name = "rr" + std::to_string(m.rr_names.size());
      m.rr_names.push_back(name);
      m.rr_caps.push_back(cap);
      m.rr_cap_var.push_back("");
      std::string cap_text = qtext(cap);
      if ((op.arg(1) & 1) && !q_rr_numeric && !m.reals.empty() && cap >= 1)
      { // the capacity is an expression: `c - x` with 0 <= x <= c - 1 (its value may still move while the search goes on)
        std::vector<std::string> xs;
        for (size_t i = 0; i < m.reals.size(); ++i)
          if (real_unit[i] <= m.unit && m.reals[i][0] != 't')
            xs.push_back(m.reals[i]);
        if (!xs.empty())
        {
          const std::string x = xs[modn(op.arg(1) >> 1, xs.size())];
          m.rr_cap_var.back() = x;
          cap_text = qtext(cap) + " - " + x;
          auto lo = std::make_shared<B>(), hi = std::make_shared<B>();
          lo->k = hi->k = B::REL;
          lo->rel = GEQ;
          lo->l.t.push_back({mpq_class(1), Path{x}});
          hi->rel = LEQ;
          hi->l.t.push_back({mpq_class(1), Path{x}});
          hi->r.k = cap - 1;
          assert_stmt(lo);
          assert_stmt(hi);
        }
      }
      decl("ReusableResource " + name + " = new ReusableResource(" + cap_text + ");");
    }
    else if (n == "use")
    {
      if (m.rr_names.empty())
        return;
      auto it = std::make_shared<BodyItem>();
      it->k = BodyItem::SUBGOAL;
      it->pred = -2; // the built-in Use predicate
      it->is_fact = true;
      it->local = "u" + std::to_string(m.n_formulas++);
      it->scope = {m.rr_names[modn(op.arg(0), m.rr_names.size())]};
      static const char *amts[] = {"0", "1", "3/2", "2", "5/2", "4", "5", "1/2"};
      static const char *durs[] = {"0", "1", "5/2", "2", "3"};
      Arg a;
      a.param = "amount";
      a.val.k = mpq_class(amts[modn(op.arg(1), 8)]);
      {
        size_t ri = static_cast<size_t>(modn(op.arg(0), m.rr_names.size()));
        if (a.val.k > m.rr_caps[ri] && modn(op.arg(3) >> 1, 8) != 0)
          a.val.k = m.rr_caps[ri]; // an atom that alone exceeds the capacity makes the planner expand its graph forever: keep it rare
      }
      it->args.push_back(a);
      Arg d;
      d.param = "duration";
      d.val.k = mpq_class(durs[modn(op.arg(2), 5)]);
      it->args.push_back(d);
      if (op.arg(3) & 1)
      {
        Arg s;
        s.param = "start";
        s.val.k = mpq_class(modn(op.arg(4), 6));
        it->args.push_back(s);
      }
      Stmt s;
      s.k = Stmt::FORMULA;
      s.item = it;
      s.text = "fact " + it->local + " = new " + ptext(it->scope) + ".Use(" + args_text(it->args) + ");";
      m.stmts.push_back(s);
      ++order;
      top.nums.push_back({it->local, "start"});
      top.nums.push_back({it->local, "end"});
    }
    else if (n == "r_use")
    { // a Use fact inside a rule body: becomes active only when the goal is activated by the search
      if (m.rr_names.empty() || m.preds.empty() || m.unit != 0)
        return;
      int p = static_cast<int>(modn(op.arg(0), m.preds.size()));
      int nsub = 0;
      for (auto &bi : m.preds[p].body)
        if (bi->k == BodyItem::SUBGOAL)
          ++nsub;
      if (nsub >= 2)
        return;
      auto it = std::make_shared<BodyItem>();
      it->k = BodyItem::SUBGOAL;
      it->pred = -2;
      it->is_fact = true;
      it->local = "s" + std::to_string(m.n_locals++);
      size_t ri = static_cast<size_t>(modn(op.arg(1), m.rr_names.size()));
      it->scope = {m.rr_names[ri]};
      static const char *amts[] = {"1", "3/2", "2", "5/2", "4", "1/2"};
      Arg a;
      a.param = "amount";
      a.val.k = mpq_class(amts[modn(op.arg(2), 6)]);
      if (a.val.k > m.rr_caps[ri])
        a.val.k = m.rr_caps[ri];
      it->args.push_back(a);
      const bool interval = p_interval(m.preds[p]);
      if (interval && (op.arg(3) & 1))
      { // the resource is used for as long as the goal lasts: no own temporal variable changes when the goal is activated
        Arg st, en;
        st.param = "start";
        st.val.t.push_back({mpq_class(1), {"start"}});
        en.param = "end";
        en.val.t.push_back({mpq_class(1), {"end"}});
        it->args.push_back(st);
        it->args.push_back(en);
      }
      else
      {
        Arg d;
        d.param = "duration";
        d.val.k = mpq_class(modn(op.arg(4), 3) + 1);
        it->args.push_back(d);
      }
      m.preds[p].body.push_back(it);
    }
    else if (n == "disj")
    { // a top-level disjunction statement: { constraint; [fact on a resource] } or { ... }
      if (top.nums.empty())
        return;
      auto d = std::make_shared<BodyItem>();
      d->k = BodyItem::DISJ;
      size_t pos = 0;
      std::string text;
      for (int br = 0; br < 2; ++br)
      {
        std::vector<std::shared_ptr<BodyItem>> items;
        BP b = parse_rel(op, pos, top, false);
        long slack = op.arg(pos++), use = op.arg(pos++), ua = op.arg(pos++), ud = op.arg(pos++), us = op.arg(pos++);
        std::string bt;
        if (b && (!b->l.t.empty() || !b->r.t.empty()))
        {
          if (br == 0 && planting(slack >> 2))
            plant_rel(b, true, slack);
          mention(b);
          auto it = std::make_shared<BodyItem>();
          it->k = BodyItem::ASSERT;
          it->b = b;
          items.push_back(it);
          std::string t = btext(b);
          if (t[0] == '-')
            t = "0.0 - " + t.substr(1);
          bt += " " + t + ";";
        }
        std::vector<int> gp;
        for (size_t i = 0; i < m.preds.size(); ++i)
          if (m.preds[i].cls < 0 && !m.any_param_fixed(static_cast<int>(i)))
            gp.push_back(static_cast<int>(i));
        if (!gp.empty() && (use & 6) == 2)
        { // the disjunct states a goal on a global predicate, its first parameter (if any) a small constant: the graph
          // defers such alternatives, and whether they are ever expanded depends on the cost of the others
          int gi = gp[modn(ua, gp.size())];
          std::string nm = "g" + std::to_string(m.n_formulas++);
          std::string args;
          if (!m.preds[gi].rparams.empty())
            args = m.preds[gi].rparams[0] + ":" + qtext(mpq_class(modn(ud, 3)));
          bt += " goal " + nm + " = new " + m.preds[gi].name + "(" + args + ");";
          auto f = std::make_shared<BodyItem>();
          f->k = BodyItem::SUBGOAL;
          f->pred = gi;
          f->is_fact = false;
          f->local = nm;
          items.push_back(f);
        }
        else if (!m.rr_names.empty() && (use & 1))
        {
          size_t ri = static_cast<size_t>(modn(use >> 1, m.rr_names.size()));
          static const char *amts[] = {"1", "3/2", "2", "5/2", "4", "1/2"};
          mpq_class amount(amts[modn(ua, 6)]);
          if (amount > m.rr_caps[ri])
            amount = m.rr_caps[ri];
          std::string nm = "u" + std::to_string(m.n_formulas++);
          bt += " fact " + nm + " = new " + m.rr_names[ri] + ".Use(amount:" + qtext(amount) + ", duration:" + qtext(mpq_class(modn(ud, 3) + 1)) + ", start:" + qtext(mpq_class(modn(us, 4))) + ");";
          auto f = std::make_shared<BodyItem>(); // the branch is not constraint-only: the references (z3, disjunct evaluation) must know
          f->k = BodyItem::SUBGOAL;
          f->pred = -2;
          f->is_fact = true;
          f->local = nm;
          items.push_back(f);
        }
        if (bt.empty())
          return;
        d->branches.push_back(items);
        text += std::string(br ? " or {" : "{") + bt + " }";
        // an explicit cost on this disjunct (a hint for the heuristic only; the other disjunct may or may not carry one)
        if (modn(slack / 5 + br, 4) == 0)
          text += " [" + qtext(mpq_class(1 + modn(slack / 20, 3))) + "]";
      }
      Stmt s;
      s.k = Stmt::DISJ;
      s.item = d;
      s.text = text;
      m.stmts.push_back(s);
      ++order;
    }
    else if (n == "touch")
    { // two top-level interval atoms (state-variable atoms first) related strictly: `a.end > b.start;` - the least value the
      // arithmetic can give a.end is then b.start + epsilon: two atoms of one timeline that intersect by an infinitesimal only
      std::vector<const BodyItem *> sv_items, iv_items;
      for (auto &st : m.stmts)
        if (st.k == Stmt::FORMULA && st.item && st.item->pred >= 0 && !st.item->local.empty())
        {
          const PredD &pd = m.preds[st.item->pred];
          if (pd.cls >= 0 && m.classes[pd.cls].is_sv && p_interval(pd))
            sv_items.push_back(st.item.get());
          else if (p_interval(pd))
            iv_items.push_back(st.item.get());
        }
      std::vector<const BodyItem *> &pool = sv_items.size() >= 2 ? sv_items : iv_items;
      if (pool.size() < 2)
        return;
      size_t i = static_cast<size_t>(modn(op.arg(0), pool.size())), j = static_cast<size_t>(modn(op.arg(1), pool.size() - 1));
      if (j >= i)
        ++j;
      auto b = std::make_shared<B>();
      b->k = B::REL;
      b->rel = (op.arg(2) & 1) ? GT : GEQ;
      b->l.t.push_back({mpq_class(1), Path{pool[i]->local, "end"}});
      b->r.t.push_back({mpq_class(1), Path{pool[j]->local, (op.arg(2) & 2) ? "end" : "start"}});
      assert_stmt(b);
    }
    else if (n == "pin")
    { // the start (or `at`) T of a top-level goal is tight only under a search decision:
      //   T >= k;   { T <= k; [goal c = new Q();] } or { T >= k + d; }
      // (what a client's failure() of c, or any backjump below that decision, may undo after the atom has started)
      // the pinned atom is a goal of its own, on a temporal global predicate, with no argument given
      std::vector<int> tp;
      for (size_t i = 0; i < m.preds.size(); ++i)
        if (m.preds[i].cls < 0 && (p_interval(m.preds[i]) || p_impulse(m.preds[i])) && !m.any_param_fixed(static_cast<int>(i)))
          tp.push_back(static_cast<int>(i));
      if (tp.empty())
        return;
      auto fo = std::make_shared<BodyItem>();
      fo->k = BodyItem::SUBGOAL;
      fo->pred = tp[modn(op.arg(0), tp.size())];
      fo->is_fact = false;
      fo->local = "g" + std::to_string(m.n_formulas++);
      {
        Stmt fs;
        fs.k = Stmt::FORMULA;
        fs.item = fo;
        fs.text = "goal " + fo->local + " = new " + m.preds[fo->pred].name + "();";
        m.stmts.push_back(fs);
        ++order;
        for (auto &a : m.preds[fo->pred].rparams)
          top.nums.push_back({fo->local, a});
      }
      const BodyItem *f = fo.get();
      // one time in three (intervals): the END is what the disjunction constrains, loosely enough for a dont_end_yet
      // delay to fit in the first disjunct: `end >= k; { end <= k + 3; .. } or { end >= k + 6; }`
      const bool on_end = p_interval(m.preds[f->pred]) && modn(op.arg(3) >> 5, 3) == 0;
      Path T = {f->local, on_end ? "end" : (p_interval(m.preds[f->pred]) ? "start" : "at")};
      mpq_class k(modn(op.arg(1), 5)), d(modn(op.arg(2), 3) + 1);
      const mpq_class slack(on_end ? 3 : 0);
      if (on_end)
        d += 5;
      auto rel = [&](int r, const mpq_class &c)
      {
        auto b = std::make_shared<B>();
        b->k = B::REL;
        b->rel = r;
        b->l.t.push_back({mpq_class(1), T});
        b->r.k = c;
        return b;
      };
      assert_stmt(rel(GEQ, k));
      auto dj = std::make_shared<BodyItem>();
      dj->k = BodyItem::DISJ;
      std::vector<std::shared_ptr<BodyItem>> b1, b2;
      auto i1 = std::make_shared<BodyItem>();
      i1->k = BodyItem::ASSERT;
      i1->b = rel(LEQ, k + slack);
      b1.push_back(i1);
      std::string t1 = " " + btext(i1->b) + ";";
      std::vector<int> gp, tgp;
      for (size_t i = 0; i < m.preds.size(); ++i)
        if (m.preds[i].cls < 0 && !m.any_param_fixed(static_cast<int>(i)))
        {
          gp.push_back(static_cast<int>(i));
          if (p_interval(m.preds[i]) || p_impulse(m.preds[i]))
            tgp.push_back(static_cast<int>(i)); // an atom the executor dispatches, hence one a client can report as failed
        }
      if (!tgp.empty())
        gp = tgp;
      if (!gp.empty() && (op.arg(3) & 1))
      {
        int gi = gp[modn(op.arg(3) >> 1, gp.size())];
        std::string nm = "g" + std::to_string(m.n_formulas++);
        t1 += " goal " + nm + " = new " + m.preds[gi].name + "();";
        auto g = std::make_shared<BodyItem>();
        g->k = BodyItem::SUBGOAL;
        g->pred = gi;
        g->local = nm;
        b1.push_back(g);
        if (p_interval(m.preds[gi]) || p_impulse(m.preds[gi]))
        { // it is still pending when the pinned atom starts
          auto later = std::make_shared<B>();
          later->k = B::REL;
          later->rel = GEQ;
          later->l.t.push_back({mpq_class(1), Path{nm, p_interval(m.preds[gi]) ? "start" : "at"}});
          later->r.k = k + (on_end ? 5 : 1) + modn(op.arg(3) >> 3, 2);
          auto il = std::make_shared<BodyItem>();
          il->k = BodyItem::ASSERT;
          il->b = later;
          b1.push_back(il);
          t1 += " " + btext(later) + ";";
        }
      }
      auto i2 = std::make_shared<BodyItem>();
      i2->k = BodyItem::ASSERT;
      i2->b = rel(GEQ, k + d);
      std::string t2;
      if (op.arg(3) >= 96)
      { // the other disjunct pushes T up INDIRECTLY, through a variable of its own: `T >= pv + d; pv >= k;` (a direct `T >= k + d`
        // is a bound on T itself: the unit lemma recorded when T was frozen already excludes it, whatever became of the frozen bounds)
        Op ro;
        ro.name = "real";
        ro.a = {0};
        apply(ro);
        const std::string pv = m.reals.back();
        planted[pv] = k;
        i2->b->r.t.push_back({mpq_class(1), Path{pv}});
        i2->b->r.k = d;
        m.mention_root(pv);
        auto i3 = std::make_shared<BodyItem>();
        i3->k = BodyItem::ASSERT;
        auto pb = std::make_shared<B>();
        pb->k = B::REL;
        pb->rel = GEQ;
        pb->l.t.push_back({mpq_class(1), Path{pv}});
        pb->r.k = k;
        i3->b = pb;
        b2.push_back(i2);
        b2.push_back(i3);
        t2 = " " + btext(i2->b) + "; " + btext(i3->b) + ";";
      }
      else
      {
        b2.push_back(i2);
        t2 = " " + btext(i2->b) + ";";
      }
      if (b1.size() >= 2 && b1[1]->k == BodyItem::SUBGOAL && (op.arg(3) & 4))
      { // a goal of the same predicate in the other disjunct as well: both cost the same, so the planner takes the FIRST one (the
        // tight one, with the goal a client may later report as failed) instead of always preferring the disjunct without a goal
        std::string nm2 = "g" + std::to_string(m.n_formulas++);
        t2 += " goal " + nm2 + " = new " + m.preds[b1[1]->pred].name + "();";
        auto g2 = std::make_shared<BodyItem>();
        g2->k = BodyItem::SUBGOAL;
        g2->pred = b1[1]->pred;
        g2->local = nm2;
        b2.push_back(g2);
      }
      dj->branches = {b1, b2};
      Stmt s;
      s.k = Stmt::DISJ;
      s.item = dj;
      s.text = "{" + t1 + " } or {" + t2 + " }";
      m.stmts.push_back(s);
      ++order;
    }
    else if (n == "epin")
    { // an atom that ends early, while the rest of the plan hangs on a disjunction whose other branch needs that atom to end much
      // later, INDIRECTLY (through the start of another atom):
      //   fact b = new EB(start:0.0);  b.end >= db;
      //   { goal a = new EA(); a.start >= ka; } [1.0] or { goal c = new EC(); c.start >= kc; b.end >= c.start + dd; } [100.0]
      // executed: b ends (possibly after a dont_end_yet), then the client reports `a` as failed: the only other plan moves the end
      // of an atom that has already ended - no valid adaptation exists. (EXEC's X6 / an execution_exception is the right outcome)
      if (m.unit != 0 || m.preds.size() >= 9)
        return;
      int pb = -1, pa = -1, pc = -1;
      for (int i = 0; i < 3; ++i)
      {
        PredD p;
        p.name = "P" + std::to_string(m.preds.size());
        p.kind = 1;
        if (i == 1 && (op.arg(3) & 1))
        { // `duration >= 2.0` in the rule of a's predicate
          auto rb = std::make_shared<B>();
          rb->k = B::REL;
          rb->rel = GEQ;
          rb->l.t.push_back({mpq_class(1), Path{"duration"}});
          rb->r.k = 2;
          auto it = std::make_shared<BodyItem>();
          it->k = BodyItem::ASSERT;
          it->b = rb;
          p.body.push_back(it);
        }
        (i == 0 ? pb : (i == 1 ? pa : pc)) = static_cast<int>(m.preds.size());
        m.preds.push_back(p);
      }
      const mpq_class db(2 + modn(op.arg(0), 3)), ka = db + 3 + modn(op.arg(1), 4), kc = ka + 4 + modn(op.arg(2), 6), dd(5 + modn(op.arg(2), 7));
      auto fb = std::make_shared<BodyItem>();
      fb->k = BodyItem::SUBGOAL;
      fb->pred = pb;
      fb->is_fact = (op.arg(3) & 2) == 0;
      fb->local = (fb->is_fact ? "f" : "g") + std::to_string(m.n_formulas++);
      Arg sa;
      sa.param = "start";
      sa.val.k = 0;
      fb->args.push_back(sa);
      {
        Stmt st;
        st.k = Stmt::FORMULA;
        st.item = fb;
        st.text = std::string(fb->is_fact ? "fact " : "goal ") + fb->local + " = new " + m.preds[pb].name + "(start:0.0);";
        m.stmts.push_back(st);
        ++order;
        top.nums.push_back({fb->local, "start"});
        top.nums.push_back({fb->local, "end"});
      }
      auto rel = [&](const Path &l, int r, const Path *rv, const mpq_class &k)
      {
        auto b = std::make_shared<B>();
        b->k = B::REL;
        b->rel = r;
        b->l.t.push_back({mpq_class(1), l});
        if (rv)
          b->r.t.push_back({mpq_class(1), *rv});
        b->r.k = k;
        return b;
      };
      assert_stmt(rel({fb->local, "end"}, GEQ, nullptr, db));
      auto dj = std::make_shared<BodyItem>();
      dj->k = BodyItem::DISJ;
      std::vector<std::shared_ptr<BodyItem>> b1, b2;
      auto sub = [&](int pred, std::vector<std::shared_ptr<BodyItem>> &br, std::string &t)
      {
        auto g = std::make_shared<BodyItem>();
        g->k = BodyItem::SUBGOAL;
        g->pred = pred;
        g->local = "g" + std::to_string(m.n_formulas++);
        br.push_back(g);
        t += " goal " + g->local + " = new " + m.preds[pred].name + "();";
        return g->local;
      };
      auto item = [&](const BP &b, std::vector<std::shared_ptr<BodyItem>> &br, std::string &t)
      {
        auto it = std::make_shared<BodyItem>();
        it->k = BodyItem::ASSERT;
        it->b = b;
        br.push_back(it);
        t += " " + btext(b) + ";";
      };
      std::string t1, t2;
      const std::string a = sub(pa, b1, t1);
      item(rel({a, "start"}, GEQ, nullptr, ka), b1, t1);
      const std::string cc = sub(pc, b2, t2);
      item(rel({cc, "start"}, GEQ, nullptr, kc), b2, t2);
      const Path cstart = {cc, "start"};
      item(rel({fb->local, "end"}, GEQ, &cstart, dd), b2, t2);
      dj->branches = {b1, b2};
      Stmt s;
      s.k = Stmt::DISJ;
      s.item = dj;
      s.text = "{" + t1 + " } [1.0] or {" + t2 + " } [100.0]";
      m.stmts.push_back(s);
      ++order;
    }
    else if (n == "tp")
    { // a time-point variable: `tp t0; t0 >= 0.0;` - the reader sends relations among them to the real difference-logic theory.
      // They are kept apart from the real variables (never mixed in one expression, unit coefficients only); for the evaluator and
      // for z3 they are numeric leaves like any other (the reported value of a time point is its least admissible one)
      if (tps.size() >= 5)
        return;
      const std::string v = "t" + std::to_string(tps.size());
      m.reals.push_back(v);
      real_unit.push_back(1 << 20); // never part of a rule's scope
      tps.push_back(v);
      planted[v] = mpq_class(2 * static_cast<long>(tps.size()) - 2);
      decl("tp " + v + ";");
      if ((op.arg(0) & 1) && tp_fixed.empty())
      { // a real variable with a single value, stated at top level: inside disjuncts (evaluated while solving, when its bounds
        // coincide) it may take part in time-point arithmetic, where it stands for its value
        Op ro;
        ro.name = "real";
        ro.a = {0};
        apply(ro);
        tp_fixed = m.reals.back();
        const mpq_class c(1 + modn(op.arg(0) >> 1, 4));
        planted[tp_fixed] = c;
        auto fb = std::make_shared<B>();
        fb->k = B::REL;
        fb->rel = EQ;
        fb->l.t.push_back({mpq_class(1), Path{tp_fixed}});
        fb->r.k = c;
        assert_stmt(fb);
        m.stmts.back().structural = true;
      }
      auto b = std::make_shared<B>();
      b->k = B::REL;
      b->rel = GEQ;
      b->l.t.push_back({mpq_class(1), Path{v}});
      b->r.k = 0;
      assert_stmt(b);
      m.stmts.back().structural = true;
    }
    else if (n == "tprel" || n == "tpdisj")
    {
      if (tps.size() < 2)
        return;
      auto mk = [&](long rel, long i, long j, long k, long form, bool plant, long slack)
      {
        auto b = std::make_shared<B>();
        b->k = B::REL;
        b->rel = static_cast<int>(modn(rel, 5));
        const std::string &ti = tps[modn(i, tps.size())];
        std::string tj = tps[modn(j, tps.size() - 1)];
        if (tj == ti)
          tj = tps.back();
        b->l.t.push_back({mpq_class(1), Path{ti}});
        const mpq_class kk = mpq_class(modn(k, 9)) / (modn(k, 4) == 3 ? 2 : 1);
        if (modn(form, 3) == 0)
          b->r.t.push_back({mpq_class(1), Path{tj}}), b->r.k = kk - 3; // ti REL tj + k
        else if (modn(form, 3) == 1)
          b->l.t.push_back({mpq_class(-1), Path{tj}}), b->r.k = kk - 3; // ti - tj REL k
        else
          b->r.k = kk; // ti REL k
        if (plant && planting(slack))
          plant_rel(b, true, slack);
        return b;
      };
      if (n == "tprel")
        assert_stmt(mk(op.arg(0), op.arg(1), op.arg(2), op.arg(3), op.arg(4), true, op.arg(5)));
      else
      { // `{ ti + a <= tj; } or { tj + b <= ti; }` (two activities that must not overlap), or branches of one to three difference
        // constraints each (a pair tightened through a third point and directly inside ONE decision level)
        auto dj = std::make_shared<BodyItem>();
        dj->k = BodyItem::DISJ;
        std::string text;
        for (int br = 0; br < 2; ++br)
        {
          std::vector<BP> rels;
          if (op.arg(6) & 1)
          {
            const long nrel = 1 + modn(op.arg(9 + br), 3);
            for (long q = 0; q < nrel; ++q)
            {
              const size_t base = 11 + static_cast<size_t>(br) * 9 + static_cast<size_t>(q) * 3;
              BP b = mk((op.arg(base) & 3) == 0 ? GEQ : LEQ, op.arg(base + 1), op.arg(base + 2), op.arg(base) >> 2, 1, false, 0);
              b->r.k = mpq_class(modn(op.arg(base) >> 2, 9)); // small non-negative bounds: paths and direct constraints compete
              if (!tp_fixed.empty() && (op.arg(base) & 16))
                b->r.t.push_back({mpq_class(1), Path{tp_fixed}}); // `ti - tj <= xf + k`
              rels.push_back(b);
            }
          }
          else
          {
            auto b = std::make_shared<B>();
            b->k = B::REL;
            b->rel = (op.arg(7) >> br) & 1 ? LT : LEQ;
            const std::string &ti = tps[modn(op.arg(1), tps.size())];
            std::string tj = tps[modn(op.arg(2), tps.size() - 1)];
            if (tj == ti)
              tj = tps.back();
            b->l.t.push_back({mpq_class(1), Path{br ? tj : ti}});
            b->l.k = mpq_class(1 + modn(op.arg(3 + br), 4));
            b->r.t.push_back({mpq_class(1), Path{br ? ti : tj}});
            rels.push_back(b);
          }
          std::vector<std::shared_ptr<BodyItem>> items;
          text += br ? " or {" : "{";
          for (auto &b : rels)
          {
            mention(b);
            auto it = std::make_shared<BodyItem>();
            it->k = BodyItem::ASSERT;
            it->b = b;
            items.push_back(it);
            text += " " + btext(b) + ";";
          }
          dj->branches.push_back(items);
          text += " }";
        }
        Stmt st;
        st.k = Stmt::DISJ;
        st.item = dj;
        st.text = text;
        m.stmts.push_back(st);
        ++order;
      }
    }
    else if (n == "origin")
    { // origin >= k: the origin is a variable like any other, atoms must not start before it
      auto b = std::make_shared<B>();
      b->k = B::REL;
      b->rel = GEQ;
      b->l.t.push_back({mpq_class(1), {"origin"}});
      b->r.k = mpq_class(modn(op.arg(0), 5) + 1);
      assert_stmt(b);
    }
    else if (n == "blockade")
    { // every timeline an open atom could go to starts with a pinned fact, and the horizon leaves room for exactly one more atom
      // after it: `goal g = new v.SP(a:3.0, duration:4.0);` (v an object variable over the class) and, on every instance in v's
      // domain, `fact f = new o.SP(a:<other>, start:0.0, duration:4.0);`, `horizon <= 10.0;`. Always solvable (the goal goes
      // after the fact of whichever instance is chosen); the only way there is the ordering "pinned atom before open atom".
      // The open goal is stated first, in the middle or last (the order decides which branch of the smart type stores the literals)
      std::vector<std::pair<std::string, int>> vs; // (variable, predicate)
      for (auto &v : m.ovars)
        if (m.classes[v.cls].is_sv && !m.classes[v.cls].is_agent)
          for (int pi : m.classes[v.cls].preds)
            if (!m.preds[pi].rparams.empty() && !m.any_param_fixed(pi))
              vs.push_back({v.name, pi});
      if (vs.empty())
        return;
      const auto &pick = vs[modn(op.arg(0), vs.size())];
      int vcls = -1;
      for (auto &v : m.ovars)
        if (v.name == pick.first)
          vcls = v.cls;
      std::vector<std::string> dom;
      for (auto &in : m.insts)
        if (m.is_subclass(in.cls, vcls))
          dom.push_back(in.name);
      if (dom.size() < 2 || dom.size() > 3)
        return;
      const int p = pick.second;
      auto formula = [&](bool fact, const std::string &scope, long k, bool pinned)
      {
        auto it = std::make_shared<BodyItem>();
        it->k = BodyItem::SUBGOAL;
        it->pred = p;
        it->is_fact = fact;
        it->local = (fact ? "f" : "g") + std::to_string(m.n_formulas++);
        it->scope = {scope};
        auto arg = [&](const std::string &name, const mpq_class &v)
        {
          Arg a;
          a.param = name;
          a.val.k = v;
          it->args.push_back(a);
        };
        arg(m.preds[p].rparams[0], mpq_class(k));
        if (pinned)
          arg("start", 0);
        arg("duration", 4);
        m.mention_root(scope);
        Stmt st;
        st.k = Stmt::FORMULA;
        st.item = it;
        st.text = std::string(fact ? "fact " : "goal ") + it->local + " = new " + scope + "." + m.preds[p].name + "(" + args_text(it->args) + ");";
        m.stmts.push_back(st);
        ++order;
        for (auto &a : m.preds[p].rparams)
          top.nums.push_back({it->local, a});
        top.nums.push_back({it->local, "start"});
        top.nums.push_back({it->local, "end"});
      };
      const size_t goal_at = static_cast<size_t>(modn(op.arg(1), dom.size() + 1));
      for (size_t i = 0; i <= dom.size(); ++i)
      {
        if (i == goal_at)
          formula(false, pick.first, 7, false);
        if (i < dom.size())
          formula(true, dom[i], static_cast<long>(i) + 1, true);
      }
      auto b = std::make_shared<B>();
      b->k = B::REL;
      b->rel = LEQ;
      b->l.t.push_back({mpq_class(1), {"horizon"}});
      b->r.k = mpq_class(10);
      assert_stmt(b);
    }
    else if (n == "ublock")
    { // a self-contained block that is solvable BY CONSTRUCTION and only through unification (C02 P7(b), C03):
      //   predicate U(real a) { a >= 100.0; }            (or a rule no value satisfies: `a <= a - 1.0;`)
      //   fact f = new U();  f.a in [lf, hf];   goal g = new U();  g.a in [lg, hg];       [lf,hf] and [lg,hg] intersect, both below 100
      // the goal cannot be activated (its rule fails for every value it may take), the fact's argument can be made equal to the
      // goal's: the only plan unifies g with f. Flavours: the fact's argument is a bounded global variable; a second fact whose
      // range misses the goal's; the goal is the sub-goal of another predicate's rule (`predicate V(real b) { goal s = new U(a:b); }`).
      // The facts are stated before the goal (see KF-P8). `block_text` is the block alone, which plan_main hands to a fresh solver.
      if (m.unit != 0 || m.preds.size() >= 6 || !block_text.empty())
        return;
      if (modn(op.arg(0), 5) == 4)
      { // two goals compete for the only fact, and the rule states a Boolean disjunction (the shape KF-P11 was reduced to):
        //   predicate U(real a) { ub | uc; ux == a; }   fact f = new U();  goal g1 = new U(a:k1);  goal g2 = new U(a:k2);   k1 != k2
        // one goal is activated (ux = its argument), the other one unified with the fact: solvable by construction
        auto decl_var = [&](const char *kind)
        {
          Op o;
          o.name = kind;
          o.a = {0};
          apply(o);
        };
        decl_var("real");
        const std::string ux = m.reals.back();
        decl_var("bool");
        const std::string ub = m.bools.back();
        decl_var("bool");
        const std::string uc = m.bools.back();
        const int pu = static_cast<int>(m.preds.size());
        PredD u;
        u.name = "P" + std::to_string(pu);
        const std::string a = "a" + std::to_string(pu) + "_0";
        u.rparams.push_back(a);
        auto dj = std::make_shared<B>();
        dj->k = B::OR;
        for (auto &bn : {ub, uc})
        {
          auto v = std::make_shared<B>();
          v->k = B::BVAR;
          v->p = {bn};
          dj->sub.push_back(v);
        }
        auto eq = std::make_shared<B>();
        eq->k = B::REL;
        eq->rel = EQ;
        eq->l.t.push_back({mpq_class(1), Path{ux}});
        eq->r.t.push_back({mpq_class(1), Path{a}});
        for (auto &bb : {dj, eq})
        {
          auto it = std::make_shared<BodyItem>();
          it->k = BodyItem::ASSERT;
          it->b = bb;
          u.body.push_back(it);
        }
        m.preds.push_back(u);
        const size_t first_stmt = m.stmts.size() - 3; // the three declarations above
        auto formula = [&](bool fact, const mpq_class *k)
        {
          auto it = std::make_shared<BodyItem>();
          it->k = BodyItem::SUBGOAL;
          it->pred = pu;
          it->is_fact = fact;
          it->local = (fact ? "f" : "g") + std::to_string(m.n_formulas++);
          std::string at;
          if (k)
          {
            Arg ar;
            ar.param = a;
            ar.val.k = *k;
            it->args.push_back(ar);
            at = a + ":" + (sgn(*k) < 0 ? "-" : "") + qtext(*k);
          }
          Stmt st;
          st.k = Stmt::FORMULA;
          st.item = it;
          st.text = std::string(fact ? "fact " : "goal ") + it->local + " = new " + u.name + "(" + at + ");";
          m.stmts.push_back(st);
          ++order;
          top.nums.push_back({it->local, a});
        };
        const mpq_class k1(modn(op.arg(1), 4)), k2 = k1 + 1 + modn(op.arg(2), 3);
        formula(true, nullptr);
        formula(false, (op.arg(6) & 1) ? &k2 : &k1);
        formula(false, (op.arg(6) & 1) ? &k1 : &k2);
        std::string text = "predicate " + u.name + "(real " + a + ") {\n  " + btext(dj) + ";\n  " + btext(eq) + ";\n}\n";
        for (size_t i = first_stmt; i < m.stmts.size(); ++i)
          text += m.stmts[i].text + "\n";
        block_text = text;
        m.mention_root(ux), m.mention_root(ub), m.mention_root(uc);
        return;
      }
      const long flavour = modn(op.arg(0), 4), how = modn(op.arg(5), 3);
      const int pu = static_cast<int>(m.preds.size());
      PredD u;
      u.name = "P" + std::to_string(pu);
      const std::string a = "a" + std::to_string(pu) + "_0";
      u.rparams.push_back(a);
      {
        auto rb = std::make_shared<B>();
        rb->k = B::REL;
        rb->l.t.push_back({mpq_class(1), Path{a}});
        if (flavour == 1)
          rb->rel = LEQ, rb->r.t.push_back({mpq_class(1), Path{a}}), rb->r.k = -1;
        else
          rb->rel = GEQ, rb->r.k = 100;
        auto it = std::make_shared<BodyItem>();
        it->k = BodyItem::ASSERT;
        it->b = rb;
        u.body.push_back(it);
      }
      m.preds.push_back(u);
      std::string decls = "predicate " + u.name + "(real " + a + ") {\n  " + btext(u.body[0]->b) + ";\n}\n";
      int pv = -1;
      std::string bpar;
      if (flavour == 3)
      {
        pv = static_cast<int>(m.preds.size());
        PredD v;
        v.name = "P" + std::to_string(pv);
        bpar = "a" + std::to_string(pv) + "_0";
        v.rparams.push_back(bpar);
        auto sg = std::make_shared<BodyItem>();
        sg->k = BodyItem::SUBGOAL;
        sg->pred = pu;
        sg->local = "s" + std::to_string(m.n_locals++);
        Arg sa;
        sa.param = a;
        sa.val.t.push_back({mpq_class(1), Path{bpar}});
        sg->args.push_back(sa);
        v.body.push_back(sg);
        m.preds.push_back(v);
        decls += "predicate " + v.name + "(real " + bpar + ") {\n  goal " + sg->local + " = new " + u.name + "(" + a + ":" + bpar + ");\n}\n";
      }
      const mpq_class lg(modn(op.arg(4), 4)), wg(modn(op.arg(2), 7));
      const mpq_class hg = lg + wg;
      mpq_class lf = lg + mpq_class(op.arg(1) < 0 ? -modn(op.arg(1), 6) : modn(op.arg(1), static_cast<size_t>(wg.get_num().get_si()) + 1));
      const mpq_class hf = (lf > lg ? lf : lg) + mpq_class(modn(op.arg(3), 5));
      std::string stmts_text;
      const size_t first_stmt = m.stmts.size();
      auto bound = [&](const Path &p, int rel, const mpq_class &k)
      {
        auto b = std::make_shared<B>();
        b->k = B::REL;
        b->rel = rel;
        b->l.t.push_back({mpq_class(1), p});
        b->r.k = k;
        assert_stmt(b);
      };
      auto formula = [&](bool fact, int pred, const std::string &argtext, const std::vector<Arg> &args)
      {
        auto it = std::make_shared<BodyItem>();
        it->k = BodyItem::SUBGOAL;
        it->pred = pred;
        it->is_fact = fact;
        it->local = (fact ? "f" : "g") + std::to_string(m.n_formulas++);
        it->args = args;
        Stmt st;
        st.k = Stmt::FORMULA;
        st.item = it;
        st.text = std::string(fact ? "fact " : "goal ") + it->local + " = new " + m.preds[pred].name + "(" + argtext + ");";
        m.stmts.push_back(st);
        ++order;
        for (auto &pa : m.preds[pred].rparams)
          top.nums.push_back({it->local, pa});
        return it->local;
      };
      // the facts
      if (flavour == 2 && (op.arg(6) & 1))
      { // a fact the goal cannot be unified with, stated first
        const std::string f2 = formula(true, pu, "", {});
        bound({f2, a}, GEQ, hg + 10), bound({f2, a}, LEQ, hg + 12);
      }
      std::string f;
      if (how == 2)
      { // the fact's argument is a bounded global variable
        Op ro;
        ro.name = "real";
        ro.a = {0};
        apply(ro);
        const std::string x = m.reals.back();
        planted[x] = lf > lg ? lf : lg;
        bound({x}, GEQ, lf), bound({x}, LEQ, hf);
        Arg fa;
        fa.param = a;
        fa.val.t.push_back({mpq_class(1), Path{x}});
        f = formula(true, pu, a + ":" + x, {fa});
        m.mention_root(x);
      }
      else
      {
        f = formula(true, pu, "", {});
        if (how == 1)
          bound({f, a}, GEQ, lf), bound({f, a}, LEQ, hf);
      }
      if (flavour == 2 && !(op.arg(6) & 1))
      {
        const std::string f2 = formula(true, pu, "", {});
        bound({f2, a}, GEQ, hg + 10), bound({f2, a}, LEQ, hg + 12);
      }
      // the goal
      const std::string g = formula(false, flavour == 3 ? pv : pu, "", {});
      const Path ga = {g, flavour == 3 ? bpar : a};
      bound(ga, GEQ, lg), bound(ga, LEQ, hg);
      if (how == 0)
        bound({f, a}, GEQ, lf), bound({f, a}, LEQ, hf);
      for (size_t i = first_stmt; i < m.stmts.size(); ++i)
        stmts_text += m.stmts[i].text + "\n";
      block_text = decls + stmts_text;
    }
    else if (n == "horizon")
    { // horizon <= k keeps timelines tight enough for conflicts
      auto b = std::make_shared<B>();
      b->k = B::REL;
      b->rel = LEQ;
      b->l.t.push_back({mpq_class(1), {"horizon"}});
      b->r.k = mpq_class(modn(op.arg(0), 12) + 1);
      assert_stmt(b);
    }
  }

  inline void Builder::finalize()
  {
    std::string d;
    for (auto &e : m.enums)
    {
      d += "enum " + e.name + " {";
      for (size_t i = 0; i < e.vals.size(); ++i)
        d += (i ? ", " : "") + std::string("\"") + e.vals[i] + "\"";
      d += "}";
      if (e.includes >= 0)
        d += " | " + m.enums[e.includes].name;
      d += ";\n";
    }
    auto body_text = [&](const PredD &p)
    {
      std::string s;
      for (auto &bi : p.body)
      {
        if (bi->k == BodyItem::ASSERT)
          s += "  " + btext(bi->b) + ";\n";
        else if (bi->k == BodyItem::SUBGOAL && bi->pred == -2)
          s += "  fact " + bi->local + " = new " + ptext(bi->scope) + ".Use(" + args_text(bi->args) + ");\n";
        else if (bi->k == BodyItem::SUBGOAL)
          s += "  goal " + bi->local + " = new " + m.preds[bi->pred].name + "(" + args_text(bi->args) + ");\n";
      }
      return s;
    };
    auto pred_text = [&](const PredD &p, const std::string &ind)
    {
      std::string s = ind + "predicate " + p.name + "(";
      for (size_t i = p.own_from; i < p.rparams.size(); ++i)
        s += (i > p.own_from ? ", " : "") + std::string("real ") + p.rparams[i];
      if (!p.oparam.empty())
        s += std::string(p.rparams.size() > p.own_from ? ", " : "") + m.classes[p.oparam_cls].name + " " + p.oparam;
      s += ")";
      const bool in_sv = p.cls >= 0 && m.classes[p.cls].is_sv && !m.classes[p.cls].is_agent;
      if (p.super >= 0)
        s += " : " + m.preds[p.super].name + (p.second_base_kind == 1 ? ", Interval" : (p.second_base_kind == 2 ? ", Impulse" : ""));
      else if (!in_sv && p.kind == 1)
        s += " : Interval";
      else if (!in_sv && p.kind == 2)
        s += " : Impulse";
      s += " {\n" + body_text(p) + ind + "}\n";
      return s;
    };
    for (size_t ci = 0; ci < m.classes.size(); ++ci)
    {
      auto &c = m.classes[ci];
      if (c.is_sv)
      {
        d += "class " + c.name + " : " + (c.super >= 0 ? m.classes[c.super].name : std::string(c.is_agent ? "Agent" : "StateVariable")) + " {\n";
        for (int pi : c.preds)
          d += pred_text(m.preds[pi], "  ");
        d += "}\n";
        continue;
      }
      d += "class " + c.name + (c.super >= 0 ? " : " + m.classes[c.super].name + (c.super2 >= 0 ? ", " + m.classes[c.super2].name : "") : (c.super2 >= 0 ? " : " + m.classes[c.super2].name : "")) + " {\n";
      for (size_t i = 0; i < c.rfields.size(); ++i)
        d += "  real " + c.rfields[i] + (c.rmode(i) == 1 || c.rmode(i) == 2 ? " = " + qtext(c.rfield_default(i)) : std::string()) + ";\n";
      if (c.ofield_class >= 0)
        d += "  " + m.classes[c.ofield_class].name + " g" + std::to_string(ci) + ";\n";
      if (c.ofield_class >= 0 && c.ofield_twice)
        d += "  " + m.classes[c.ofield_class].name + " h" + std::to_string(ci) + ";\n";
      std::vector<std::pair<std::string, std::string>> ps, sps;
      ctor_params(m, static_cast<int>(ci), ps);
      ctor_params(m, c.super, sps);
      for (int pi : c.preds)
        d += pred_text(m.preds[pi], "  ");
      d += "  " + c.name + "(";
      for (size_t i = 0; i < ps.size(); ++i)
        d += (i ? ", " : "") + ps[i].first + " " + ps[i].second;
      d += ")";
      std::string il;
      if (c.super >= 0 && !sps.empty())
      {
        il += m.classes[c.super].name + "(";
        for (size_t i = 0; i < sps.size(); ++i)
          il += (i ? ", " : "") + sps[i].second;
        il += ")";
      }
      for (size_t i = 0; i < c.rfields.size(); ++i)
        if (c.rmode(i) < 2)
          il += (il.empty() ? "" : ", ") + c.rfields[i] + "(p_" + c.rfields[i] + ")";
      if (c.ofield_class >= 0)
        il += (il.empty() ? "" : ", ") + std::string("g") + std::to_string(ci) + "(p_g" + std::to_string(ci) + ")";
      if (c.ofield_class >= 0 && c.ofield_twice)
        il += (il.empty() ? "" : ", ") + std::string("h") + std::to_string(ci) + "(p_h" + std::to_string(ci) + ")";
      d += (il.empty() ? "" : " : " + il) + " {}\n}\n";
    }
    for (auto &p : m.preds)
      if (p.cls < 0)
        d += pred_text(p, "");
    m.decl_text.push_back(d);
    units.clear();
    unit_cut_mode.clear();
    std::string cur = d;
    for (auto &s : m.stmts)
    {
      if (s.k == Stmt::CUT)
      {
        units.push_back(cur);
        unit_cut_mode.push_back(s.cut_mode);
        cur.clear();
      }
      else
        cur += s.text + "\n";
    }
    units.push_back(cur);
    unit_cut_mode.push_back(1);
  }
} // namespace plan
