// PLAN engine worker: a generated RIDDLE problem is delivered to the real reader/planner as a history
// of read() / solve() / pop-to-root / read() / solve() calls under a seeded heap layout; every reported
// solution is evaluated exactly against our own AST (P1..P6), every negative verdict on the
// constraint-only fragment is cross-examined with z3 (P7).
//   run  <id> seed=N layout=L prop=Cxx            generate + execute
//   exec <id> layout=L prop=Cxx body=K + K ops    execute an explicit op list
#include "build2.h"
#include "check2.h"
#include "gen.h"
#include "zplan.h"
#include "../core/worker.h"
#include "../core/layout.h"
#include <sstream>

using namespace plan;

static std::string one_line(std::string s)
{
  for (auto &c : s)
    if (c == '\n' || c == '\r')
      c = ' ';
  return s;
}

static bool enabled_for(const std::string &prop, const PViolation &v)
{
  if (prop == "ALL")
    return true;
  const std::string &o = v.oracle;
  if (prop == "C01")
    return o == "P1";
  if (prop == "C02")
    return o == "P7";
  if (prop == "C03")
    return o == "P2" || v.cls == "P1.subgoal_missing" || v.cls == "P1.subgoal_not_in_plan";
  if (prop == "C04")
    return o == "P3";
  if (prop == "C05")
    return o == "P4";
  if (prop == "C06")
    return o == "P5";
  if (prop == "C17")
    return o == "P6" || (o == "P1" && v.msg.find("[objects]") != std::string::npos);
  return false;
}

static bool mentions_objects(const BP &b)
{
  if (b->k == B::OEQ || b->k == B::ONEQ || b->k == B::EVAL)
    return true;
  auto lin_obj = [](const Lin &l)
  {
    for (auto &t : l.t)
      if (t.second.size() > 1 && (t.second[0][0] == 'v' || t.second[0][0] == 'o'))
        return true;
    return false;
  };
  if (b->k == B::REL && (lin_obj(b->l) || lin_obj(b->r)))
    return true;
  for (auto &c : b->sub)
    if (mentions_objects(c))
      return true;
  return false;
}


// Flaws are expanded first-in first-out and an atom is only offered unification with atoms whose flaw is already expanded.
// Reading the goal/fact statements in the opposite order flips the expansion order of two atoms exactly when they sit at the
// same depth of the causal graph under different top-level statements. True when the solution unifies such a pair.
static bool flipped_unification(const Listener &l, const Checker &ck)
{
  std::map<const ratio::atom *, const ratio::flaw *> fl;
  for (auto *f : l.flaws)
    if (auto *af = dynamic_cast<const ratio::atom_flaw *>(f))
      fl[&af->get_atom()] = f;
  auto locate = [](const ratio::flaw *f, int &depth) -> const ratio::flaw *
  {
    depth = 0;
    while (f && !f->get_causes().empty() && depth < 1000)
    {
      f = &f->get_causes().front()->get_effect();
      ++depth;
    }
    return f;
  };
  for (auto &up : ck.unified_pairs)
  {
    auto a = fl.find(up.first), t = fl.find(up.second);
    if (a == fl.end() || t == fl.end())
      continue;
    int da = 0, dt = 0;
    const ratio::flaw *ra = locate(a->second, da), *rt = locate(t->second, dt);
    if (da == dt && ra != rt)
      return true;
  }
  return false;
}

static void run_cmd(const sim::Cmd &c, sim::Out &out)
{
  const std::string prop = c.str("prop", "C01");
  const uint64_t seed = c.u64("seed", 1);
  const uint64_t layout = c.u64("layout", 0);
  const bool verbose = c.num("verbose", 0) != 0;
  std::vector<Op> ops;
  if (c.verb == "run" || c.verb == "gen")
    ops = generate(seed, c.str("profile", prop));
  else
    for (auto &l : c.body)
    {
      Op op;
      if (Op::parse(l, op))
        ops.push_back(op);
    }
  Builder b;
  if (c.num("quarantine", 1) == 0)
    b.q_undecided_relations = b.q_disj_polarity = false;
  if (c.num("q_undecided_relations", 1) == 0)
    b.q_undecided_relations = false;
  // KF-P2 is repaired: seed-generated runs no longer keep away from negated / reified disjunctions. Explicit histories (replay files,
  // canaries, regression replays) keep the meaning their ops had when they were recorded unless they say otherwise; the setting is
  // part of the run's parameters, so every new replay file records it
  const long q_disj = c.num("q_disj_polarity", c.verb == "exec" ? 1 : 0);
  if (q_disj == 0)
    b.q_disj_polarity = false;
  b.q_rr_numeric = c.num("q_rr_numeric", prop == "C02" ? 1 : 0) != 0;
  b.q_empty_object_domain = c.num("q_empty_object_domain", 1) != 0;
  for (auto &op : ops)
    b.apply(op);
  b.finalize();
  out.line("P layout=" + std::to_string(layout) + " seed=" + std::to_string(seed) + " q_disj_polarity=" + std::to_string(q_disj));
  if (c.verb == "gen" || c.num("emit_ops", 0))
    for (auto &op : ops)
      out.line("O " + op.text());
  if (c.verb == "gen" || verbose)
    for (size_t u = 0; u < b.units.size(); ++u)
    {
      out.line("T --- unit " + std::to_string(u) + " (then " + (b.unit_cut_mode[u] ? "solve" : "read on") + ")");
      std::istringstream is(b.units[u]);
      std::string ln;
      while (std::getline(is, ln))
        out.line("T " + ln);
    }
  if (c.verb == "gen")
  {
    out.line("R status=OK hash=0 ops=" + std::to_string(ops.size()) + " done=0 nontrivial=0 sig=0");
    return;
  }
  out.flush();
  uint64_t sig = sim::fnv64(std::to_string(layout));
  for (auto &u : b.units)
    sig = sim::fnv64(u, sig);
  sim::EventLog log;
  sim::Counters cnt;
  std::vector<PViolation> viols, others;
  std::string status = "OK";
  bool nontrivial = false;
  for (auto &st : b.m.stmts)
    if (st.k == Stmt::ASSERT && mentions_objects(st.b))
      st.text += " /*[objects]*/";

  { // what fresh heap blocks hold is part of the simulated environment too: zero, 0xff, 0x5a or whatever was there before
    static const int fills[] = {-1, 0x00, 0xff, 0x5a};
    sim::layout::set_poison(static_cast<int>(c.num("poison", fills[sim::Rng(seed).derive("poison").below(4)])));
  }
  sim::layout::start(sim::mix64(seed * 1000003ULL + layout), layout != 0, 0);
  ratio::solver *s = new ratio::solver();
  Listener *l = new Listener(*s);
  int units_read = 0;
  bool ended = false;
  bool primary_nested = false;
  bool witness_late_unification = false;
  bool primary_flipped_unification = false;
  bool resolve_unchanged = false; // the negative answer came from re-solving an unchanged problem (see KF-P5)
  int last_solved_unit = -1;
  int verdict = -1; // of the whole history: 1 = every solve() succeeded, 0 = a negative answer, -1 = none (discarded, violation)
  std::string verdict_how;
  auto negative = [&](const std::string &how)
  {
    verdict = 0;
    verdict_how = how;
    cnt.inc("negative_verdicts");
    log.ev("negative verdict: " + how);
    ZPlan z(b.m);
    int r = z.satisfiable(units_read);
    cnt.inc(r == 0 ? "p7.z3_confirms_unsat" : (r == 1 ? "p7.z3_sat" : "p7.not_decidable_here"));
    if (r == 1)
    {
      std::string problem;
      for (int u = 0; u < units_read && u < static_cast<int>(b.units.size()); ++u)
        problem += b.units[u] + " ";
      PViolation v{"P7", "P7.unsolvable_but_sat", "the planner answered '" + how + "' but the problem has a solution, e.g. " + one_line(z.model).substr(0, 300) + " | problem: " + one_line(problem).substr(0, 500)};
      (enabled_for(prop, v) ? viols : others).push_back(v);
    }
    ended = true;
  };
  for (size_t u = 0; u < b.units.size() && !ended; ++u)
  {
    while (!s->root_level())
      s->get_sat_core().pop();
    try
    {
      s->read(b.units[u]);
      units_read = static_cast<int>(u) + 1;
      log.ev("read unit " + std::to_string(u) + " ok");
      cnt.inc("reads");
    }
    catch (const ratio::unsolvable_exception &)
    {
      units_read = static_cast<int>(u) + 1;
      negative("unsolvable_exception from read()");
      break;
    }
    catch (const ratio::inconsistency_exception &)
    {
      units_read = static_cast<int>(u) + 1;
      negative("inconsistency_exception from read()");
      break;
    }
    catch (const std::runtime_error &e)
    {
      units_read = static_cast<int>(u) + 1;
      if (std::string(e.what()).find("inconsistent") != std::string::npos)
        negative(std::string("read(): ") + e.what());
      else
      {
        status = "DISCARD";
        cnt.inc("discard.reader_rejected");
        log.ev(std::string("reader rejected: ") + e.what());
        out.line("N oracle=GEN class=reader_rejected op=0 msg=" + one_line(e.what()));
        ended = true;
      }
      break;
    }
    catch (const std::exception &e)
    {
      status = "DISCARD";
      cnt.inc("discard.reader_rejected");
      log.ev(std::string("reader rejected: ") + e.what());
      out.line("N oracle=GEN class=reader_rejected op=0 msg=" + one_line(e.what()));
      ended = true;
      break;
    }
    {
      Checker dk(*s, b.m, *l);
      dk.check_domains_after_read(units_read);
      for (auto &p : dk.cnt.c)
        cnt.inc(p.first, p.second);
      for (auto &v : dk.out)
      {
        log.ev("violation " + v.cls);
        (enabled_for(prop, v) ? viols : others).push_back(v);
      }
      if (!viols.empty())
        break;
    }
    if (!b.unit_cut_mode[u] && u + 1 < b.units.size())
      continue;
    bool r = false;
    try
    {
      r = s->solve();
    }
    catch (const std::exception &e)
    {
      PViolation v{"X", "X.exception_from_solve", std::string("solve() threw ") + e.what()};
      viols.push_back(v);
      break;
    }
    cnt.inc("solves");
    log.ev(std::string("solve -> ") + (r ? "true" : "false"));
    if (!r)
    {
      if (last_solved_unit >= 0)
      {
        resolve_unchanged = true;
        for (size_t v = static_cast<size_t>(last_solved_unit) + 1; v <= u; ++v)
          if (b.units[v].find_first_not_of(" \t\r\n") != std::string::npos)
            resolve_unchanged = false;
      }
      negative("solve() == false");
      break;
    }
    last_solved_unit = static_cast<int>(u);
    cnt.inc("solutions");
    {
      std::ostringstream os; // the textual dump must not crash either
      os << *s;
      log.ev("dump bytes " + std::to_string(os.str().size() > 0));
    }
    Checker ck(*s, b.m, *l);
    ck.check_all(units_read);
    primary_nested = ck.nested_zero_length;
    primary_flipped_unification = flipped_unification(*l, ck);
    for (auto &p : ck.cnt.c)
      cnt.inc(p.first, p.second);
    for (auto *f : l->flaws)
      if (f->get_resolvers().size() >= 2)
        nontrivial = true;
    // the solution itself goes into the event log (values of every named leaf)
    {
      ratio::env *top = static_cast<ratio::core *>(s);
      Checker::Locals none;
      for (auto &x : b.m.reals)
      {
        Val v;
        if (ck.num(top, none, {x}, v))
          log.ev(x + "=" + vtext(v));
      }
      for (auto *af : ck.aflaws)
        log.ev(ck.aname(af->get_atom()) + " phi=" + std::to_string(ck.lval(af->get_phi())) + " sigma=" + std::to_string(ck.sigma(af->get_atom())));
    }
    for (auto &v : ck.out)
    {
      log.ev("violation " + v.cls);
      (enabled_for(prop, v) ? viols : others).push_back(v);
    }
    if (!viols.empty())
      break;
    if (u + 1 == b.units.size())
    { // a positive verdict only counts when the solution checks (whichever property this run is judged for)
      if (ck.out.empty())
        verdict = 1;
      else
        cnt.inc("p7c.primary_solution_does_not_check");
    }
  }
  // P7(b), C02 (and C03): a problem built around a known feasible plan is never rejected. The `ublock` part of the problem is
  // solvable by construction (its goal can only be unified with its fact, whose argument range meets the goal's); a fresh solver
  // reads it alone: a negative verdict is wrong whatever the rest of the problem looks like.
  if (!b.block_text.empty() && (prop == "C02" || c.num("variants", 0)) && status == "OK" && viols.empty() && c.num("planted_block", 1) != 0)
  {
    ratio::solver *s3 = new ratio::solver();
    int v3 = -1;
    std::string how3;
    try
    {
      s3->read(b.block_text);
      v3 = s3->solve() ? 1 : 0;
      how3 = "solve() == false";
    }
    catch (const ratio::unsolvable_exception &)
    {
      v3 = 0, how3 = "unsolvable_exception from read()";
    }
    catch (const ratio::inconsistency_exception &)
    {
      v3 = 0, how3 = "inconsistency_exception from read()";
    }
    catch (const std::exception &e)
    {
      if (std::string(e.what()).find("inconsistent") != std::string::npos)
        v3 = 0, how3 = std::string("read(): ") + e.what();
      else
        cnt.inc("p7b.block_rejected_by_reader");
    }
    cnt.inc(v3 == 1 ? "p7b.planted_block_solved" : (v3 == 0 ? "p7b.planted_block_unsolvable" : "p7b.planted_block_not_read"));
    log.ev("planted block -> " + std::to_string(v3));
    if (v3 == 0)
    {
      PViolation v{"P7", "P7.planted_problem_rejected", "the planner answered '" + how3 + "' on a problem built around a known plan (the goal unified with the fact, their argument ranges intersect) | problem: " + one_line(b.block_text).substr(0, 600)};
      (enabled_for(prop, v) ? viols : others).push_back(v);
    }
  }
  // P7(c), C02: semantically equivalent formulations get the same verdict. The whole problem is read again by a fresh
  // solver as ONE unit with its independent constraints in another (seeded) order, once plainly and once with a
  // tautology added. A verdict only counts when the search ended; a positive one only when the solution checks.
  if ((prop == "C02" || c.num("variants", 0)) && status == "OK" && viols.empty() && verdict >= 0 && c.num("variants", 1) != 0)
  {
    const int n_variants = verdict == 1 && c.num("relaxation", 1) != 0 ? 6 : 5;
    std::string dropped;
    for (int k = 0; k < n_variants && viols.empty(); ++k)
    {
      const std::string text = k == 5 ? b.variant_relaxed(seed, dropped) : k < 2 ? b.variant(seed * 31 + static_cast<uint64_t>(k), k == 1) : (k == 2 ? b.variant_with_dead_disjunct() : (k == 3 ? b.variant_reversed_formulas() : b.variant_fact_twice(seed)));
      if (text.empty())
        continue;
      ratio::solver *s2 = new ratio::solver();
      Listener *l2 = new Listener(*s2);
      int v2 = -1;
      std::string how2;
      try
      {
        s2->read(text);
        v2 = s2->solve() ? 1 : 0;
        how2 = "solve() == false";
      }
      catch (const ratio::unsolvable_exception &)
      {
        v2 = 0;
        how2 = "unsolvable_exception from read()";
      }
      catch (const ratio::inconsistency_exception &)
      {
        v2 = 0;
        how2 = "inconsistency_exception from read()";
      }
      catch (const std::exception &e)
      {
        if (std::string(e.what()).find("inconsistent") != std::string::npos)
          v2 = 0, how2 = std::string("read(): ") + e.what();
        else
          cnt.inc("p7c.variant_rejected_by_reader");
      }
      if (v2 < 0)
        continue;
      cnt.inc("p7c.variants_run");
      log.ev("variant " + std::to_string(k) + " -> " + std::to_string(v2));
      bool witness_nested = primary_nested;
      bool witness_flipped_unification = k == 3 && verdict == 1 && primary_flipped_unification;
      if (v2 == 1 && k == 3)
        cnt.inc("p7c.reversed_formulas_solved");
      if (k == 4)
        cnt.inc(v2 == 1 ? "p7c.fact_twice_solved" : "p7c.fact_twice_unsolvable");
      if (v2 == 1)
      { // only a solution that checks is a witness
        Checker ck2(*s2, b.m, *l2);
        ck2.check_all(static_cast<int>(b.units.size()));
        if (!ck2.out.empty())
        {
          cnt.inc("p7c.variant_solution_does_not_check");
          continue;
        }
        witness_nested = ck2.nested_zero_length;
        if (k == 3)
          witness_flipped_unification = flipped_unification(*l2, ck2);
        // does the witness unify some atom with one that the history read only after a solve() had already run?
        if (verdict == 0 && last_solved_unit >= 0)
        {
          std::set<const ratio::atom *> late;
          int unit = 0;
          ratio::env *top2 = static_cast<ratio::core *>(s2);
          Checker::Locals none2;
          for (auto &st : b.m.stmts)
          {
            if (st.k == Stmt::CUT)
              ++unit;
            else if (st.k == Stmt::FORMULA && unit > last_solved_unit)
              if (auto *la = dynamic_cast<ratio::atom *>(ck2.resolve(top2, none2, {st.item->local})))
                late.insert(la);
          }
          for (auto &up : ck2.unified_pairs)
            if (late.count(up.second))
              witness_late_unification = true;
        }
      }
      if (k == 5)
        cnt.inc(v2 == 1 ? "p7c.relaxation_solved" : "p7c.relaxation_unsolvable");
      if (v2 == verdict)
      {
        cnt.inc("p7c.same_verdict");
        continue;
      }
      const std::string whole = one_line(text).substr(0, 500);
      const std::string how_variant = k == 5 ? std::string("read as one unit WITHOUT the constraint `" + dropped + "` (a relaxation: every solution of the problem solves it)") : k == 4 ? std::string("read as one unit with one of its facts stated twice") : k == 3 ? std::string("read as one unit with its goal/fact/disjunction statements in the opposite order") : k == 2 ? std::string("read as one unit with one more, unachievable disjunct in every disjunction") : std::string("read as one unit with its independent constraints reordered") + (k == 1 ? " and a tautology added" : "");
      std::string msg;
      if (verdict == 0)
        msg = "the planner answered '" + verdict_how + "' but the same problem, " + how_variant + ", is solved and that solution checks | problem: " + whole;
      else
        msg = "the problem was solved (and the solution checks) but the same problem, " + how_variant + ", is answered '" + how2 + "' | problem: " + whole;
      if (witness_nested)
        msg = "[the witness places a zero-length atom strictly inside another atom of the same state variable] " + msg;
      if (verdict == 0 && witness_late_unification)
        msg = "[the witness unifies a sub-goal with an atom that the history read only after a solve() had expanded that sub-goal] " + msg;
      if (witness_flipped_unification)
        msg = "[the witness unifies an atom with one whose flaw, in the other formulation's statement order, is expanded after it] " + msg;
      if (verdict == 0 && resolve_unchanged)
        msg = "[solve() answered false when it was called again, after a successful solve() and a return to root level, on a problem nothing had been added to] " + msg;
      PViolation v{"P7", "P7.equivalent_formulations_differ", msg};
      (enabled_for(prop, v) ? viols : others).push_back(v);
    }
  }
  cnt.inc("flaws", static_cast<long>(l->flaws.size()));
  cnt.inc("resolvers", l->n_resolvers);
  cnt.inc("causal_links", l->n_links);
  if (status == "OK" && viols.empty() && c.num("destroy", prop == "C18" ? 1 : 0) != 0)
  { // C18: tearing the solver down must not crash either (the allocator is ours: a block freed twice, or a free of something
    // it never handed out, stops the run; the sanitizer configuration sees use-after-free as well)
    log.ev("destroy");
    out.flush();
    delete l;
    delete s;
    cnt.inc("solvers_destroyed");
  }
  sim::layout::stop();
  cnt.inc("units", static_cast<long>(b.units.size()));
  cnt.inc("quarantined_statements", b.quarantined);
  if (!viols.empty())
    status = "VIOL";
  for (auto &v : viols)
    out.line("V oracle=" + v.oracle + " class=" + v.cls + " op=0 msg=" + one_line(v.msg));
  for (auto &v : others)
    out.line("N oracle=" + v.oracle + " class=" + v.cls + " op=0 msg=" + one_line(v.msg));
  for (auto &p : cnt.c)
    out.line("C " + p.first + " " + std::to_string(p.second));
  out.line("R status=" + status + " hash=" + sim::hex64(log.hash()) + " ops=" + std::to_string(ops.size()) + " done=" + std::to_string(units_read) + " nontrivial=" + (nontrivial ? "1" : "0") + " sig=" + sim::hex64(sig));
}

int main(int argc, char **argv)
{
  return sim::worker_main(argc, argv, run_cmd, 6000);
}
