// P7(a): the constraint-only fragment of a generated problem translated to z3 from our own AST, used to
// witness that a problem the planner calls unsolvable does have a solution (C02).
#pragma once
#include "model.h"
#include "../core/layout.h"
#include <z3++.h>

namespace plan
{
  class ZPlan
  {
  public:
    ZPlan(const Model &m) : m(m), slv(ctx)
    {
      z3::params p(ctx);
      p.set("timeout", 3000u);
      slv.set(p);
    }
    bool supported = true;

    z3::expr zq(const mpq_class &q) { return ctx.real_val(q.get_str().c_str()); }
    int inst_by_name(const std::string &n)
    {
      for (size_t i = 0; i < m.insts.size(); ++i)
        if (m.insts[i].name == n)
          return static_cast<int>(i);
      return -1;
    }
    const OVarD *ovar_by_name(const std::string &n)
    {
      for (auto &v : m.ovars)
        if (v.name == n)
          return &v;
      return nullptr;
    }
    std::vector<int> domain(const OVarD &v)
    {
      std::vector<int> d;
      for (size_t i = 0; i < m.insts.size(); ++i)
        if (m.is_subclass(m.insts[i].cls, v.cls) && m.insts[i].order < v.order)
          d.push_back(static_cast<int>(i));
      return d;
    }
    // field lookups on a concrete instance
    bool rfield(int inst, const std::string &f, mpq_class &out)
    {
      std::vector<std::string> rf;
      m.all_rfields(m.insts[inst].cls, rf);
      for (size_t i = 0; i < rf.size(); ++i)
        if (rf[i] == f)
        {
          out = m.insts[inst].rargs[i];
          return true;
        }
      return false;
    }
    int ofield(int inst, const std::string &f)
    {
      std::vector<std::pair<std::string, int>> of;
      m.all_ofields(m.insts[inst].cls, of);
      for (size_t i = 0; i < of.size(); ++i)
        if (of[i].first == f)
          return m.insts[inst].oargs[i];
      return -1;
    }
    // object-valued path -> Int expression (instance index)
    z3::expr zobj(const Path &p)
    {
      int in = inst_by_name(p[0]);
      if (in >= 0)
      {
        if (p.size() == 1)
          return ctx.int_val(in);
        int t = ofield(in, p[1]);
        if (t < 0 || p.size() > 2)
        {
          supported = false;
          return ctx.int_val(-1);
        }
        return ctx.int_val(t);
      }
      for (auto &ev : m.evars)
        if (ev.name == p[0] && p.size() == 1)
          return ctx.int_const(ev.name.c_str()); // value = global index of the enum value (see satisfiable())
      const OVarD *v = ovar_by_name(p[0]);
      if (!v)
      {
        supported = false;
        return ctx.int_val(-1);
      }
      z3::expr var = ctx.int_const(v->name.c_str());
      if (p.size() == 1)
        return var;
      z3::expr r = ctx.int_val(-1);
      for (int i : domain(*v))
      {
        int t = ofield(i, p[1]);
        if (t >= 0)
          r = z3::ite(var == ctx.int_val(i), ctx.int_val(t), r);
      }
      if (p.size() > 2)
        supported = false;
      return r;
    }
    z3::expr znum(const Path &p)
    {
      if (p.size() == 1)
      {
        for (auto &x : m.reals)
          if (x == p[0])
            return ctx.real_const(x.c_str());
        if (p[0] == "origin" || p[0] == "horizon")
          return ctx.real_const(p[0].c_str());
        supported = false;
        return ctx.real_val(0);
      }
      int in = inst_by_name(p[0]);
      mpq_class c;
      if (in >= 0)
      {
        if (p.size() == 2 && rfield(in, p[1], c))
          return zq(c);
        supported = false;
        return ctx.real_val(0);
      }
      const OVarD *v = ovar_by_name(p[0]);
      if (!v || p.size() != 2)
      {
        supported = false;
        return ctx.real_val(0);
      }
      z3::expr var = ctx.int_const(v->name.c_str());
      z3::expr r = ctx.real_val(0);
      for (int i : domain(*v))
        if (rfield(i, p[1], c))
          r = z3::ite(var == ctx.int_val(i), zq(c), r);
      return r;
    }
    z3::expr zlin(const Lin &l)
    {
      z3::expr s = zq(l.k);
      for (auto &t : l.t)
        s = s + zq(t.first) * znum(t.second);
      return s;
    }
    z3::expr zb(const BP &b)
    {
      switch (b->k)
      {
      case B::REL:
      {
        z3::expr l = zlin(b->l), r = zlin(b->r);
        switch (b->rel)
        {
        case LT:
          return l < r;
        case LEQ:
          return l <= r;
        case EQ:
          return l == r;
        case GEQ:
          return l >= r;
        case GT:
          return l > r;
        default:
          return l != r;
        }
      }
      case B::BVAR:
        return ctx.bool_const(ptext(b->p).c_str());
      case B::NOT:
        return !zb(b->sub[0]);
      case B::OR:
      case B::AND:
      {
        z3::expr_vector v(ctx);
        for (auto &c : b->sub)
          v.push_back(zb(c));
        return b->k == B::OR ? z3::mk_or(v) : z3::mk_and(v);
      }
      case B::XOR:
      {
        z3::expr s = ctx.int_val(0);
        for (auto &c : b->sub)
          s = s + z3::ite(zb(c), ctx.int_val(1), ctx.int_val(0));
        return s == 1;
      }
      case B::IMP:
        return z3::implies(zb(b->sub[0]), zb(b->sub[1]));
      case B::BEQ:
        return zb(b->sub[0]) == zb(b->sub[1]);
      case B::OEQ:
        return zobj(b->p) == zobj(b->p2);
      case B::ONEQ:
        return zobj(b->p) != zobj(b->p2);
      default:
      {
        for (auto &v : m.evars)
          if (v.name == b->p[0])
          {
            z3::expr var = ctx.int_const(v.name.c_str());
            for (auto &x : m.enum_values(v.en))
              if (x.second == b->sval)
                return b->neg ? var != ctx.int_val(x.first) : var == ctx.int_val(x.first);
          }
        supported = false;
        return ctx.bool_val(true);
      }
      }
    }
    // 0 unsat, 1 sat, 2 unknown / unsupported
    int satisfiable(int units_read)
    {
      sim::layout::Suspend sp;
      try
      {
        int unit = 0;
        for (auto &st : m.stmts)
        {
          if (st.k == Stmt::CUT)
          {
            ++unit;
            continue;
          }
          if (unit >= units_read)
            break;
          if (st.k == Stmt::FORMULA)
            return 2;
          if (st.k == Stmt::ASSERT)
            slv.add(zb(st.b));
          if (st.k == Stmt::DISJ)
          { // { c; ... } or { c; ... }: one branch holds; a branch that also states a fact is outside this fragment
            z3::expr_vector brs(ctx);
            for (auto &br : st.item->branches)
            {
              z3::expr_vector cs(ctx);
              for (auto &it : br)
              {
                if (it->k != BodyItem::ASSERT)
                  return 2;
                cs.push_back(zb(it->b));
              }
              brs.push_back(cs.empty() ? ctx.bool_val(true) : z3::mk_and(cs));
            }
            if (!brs.empty())
              slv.add(z3::mk_or(brs));
          }
        }
        for (auto &v : m.ovars)
        {
          if (v.unit >= units_read)
            continue;
          z3::expr_vector d(ctx);
          for (int i : domain(v))
            d.push_back(ctx.int_const(v.name.c_str()) == ctx.int_val(i));
          if (d.empty())
            return 2;
          slv.add(z3::mk_or(d));
        }
        for (auto &v : m.evars)
        { // an enum variable ranges over the values of its enum and of the included one; ids are global (1000*enum + index)
          z3::expr_vector d(ctx);
          z3::expr var = ctx.int_const(v.name.c_str());
          for (auto &x : m.enum_values(v.en))
            d.push_back(var == ctx.int_val(x.first));
          slv.add(z3::mk_or(d));
        }
        // what the planner itself adds: origin >= 0, origin <= horizon
        slv.add(ctx.real_const("origin") >= 0 && ctx.real_const("origin") <= ctx.real_const("horizon"));
        if (!supported)
          return 2;
        z3::check_result r = slv.check();
        if (r == z3::sat)
        {
          std::ostringstream os;
          os << slv.get_model();
          model = os.str();
        }
        return r == z3::unsat ? 0 : (r == z3::sat ? 1 : 2);
      }
      catch (const z3::exception &)
      {
        return 2;
      }
    }
    std::string model;

  private:
    const Model &m;
    z3::context ctx;
    z3::solver slv;
  };
} // namespace plan
