// PLAN engine: exact evaluation of our own AST on the solution the planner reports (oracles P1..P6).
// The network is never asked whether a constraint holds: only values of leaves are read through the
// public API (get / arith_value / bool_value / enum_value / atom sigma / flaw and resolver literals).
#pragma once
#include "model.h"
#include "solver.h"
#include "atom.h"
#include "predicate.h"
#include "solver_listener.h"
#include "atom_flaw.h"
#include <functional>

namespace plan
{
  struct Val
  {
    mpq_class r = 0, e = 0;
  };
  inline int vcmp(const Val &a, const Val &b)
  {
    int c = cmp(a.r, b.r);
    if (c)
      return c < 0 ? -1 : 1;
    c = cmp(a.e, b.e);
    return c < 0 ? -1 : (c > 0 ? 1 : 0);
  }
  inline std::string vtext(const Val &v) { return v.r.get_str() + (v.e != 0 ? (sgn(v.e) > 0 ? "+" : "") + v.e.get_str() + "e" : ""); }

  struct PViolation
  {
    std::string oracle, cls, msg;
  };

  class Listener : public ratio::solver_listener
  {
  public:
    Listener(ratio::solver &s) : solver_listener(s) {}
    std::vector<const ratio::flaw *> flaws;
    long n_resolvers = 0, n_links = 0;

  private:
    void flaw_created(const ratio::flaw &f) override { flaws.push_back(&f); }
    void resolver_created(const ratio::resolver &) override { ++n_resolvers; }
    void causal_link_added(const ratio::flaw &, const ratio::resolver &) override { ++n_links; }
  };

  class Checker
  {
  public:
    Checker(ratio::solver &s, const Model &m, Listener &l) : s(s), m(m), l(l) {}
    ratio::solver &s;
    const Model &m;
    Listener &l;
    std::vector<PViolation> out;
    sim::Counters cnt;
    using Locals = std::map<std::string, ratio::atom *>;

    void viol(const std::string &oracle, const std::string &cls, const std::string &msg)
    {
      if (out.size() < 8)
        out.push_back({oracle, cls, msg});
    }

    static Val conv(const smt::inf_rational &v)
    {
      Val x;
      x.r = mpq_class(mpz_class(v.get_rational().numerator()), mpz_class(v.get_rational().denominator()));
      x.r.canonicalize();
      x.e = mpq_class(mpz_class(v.get_infinitesimal().numerator()), mpz_class(v.get_infinitesimal().denominator()));
      x.e.canonicalize();
      return x;
    }

    // ---- resolution of paths ----
    ratio::item *step(ratio::item *cur, const std::string &name)
    {
      if (!cur)
        return nullptr;
      if (auto *vi = dynamic_cast<ratio::var_item *>(cur))
      { // an object variable: the field of whichever instance is chosen
        auto vals = s.enum_value(ratio::var_expr(vi));
        if (vals.size() != 1)
          return nullptr;
        cur = static_cast<ratio::item *>(*vals.begin());
      }
      try
      {
        ratio::expr e = cur->get(name);
        return &*e;
      }
      catch (const std::exception &)
      {
        return nullptr;
      }
    }
    ratio::item *resolve(ratio::env *scope, const Locals &loc, const Path &p)
    {
      ratio::item *cur = nullptr;
      auto it = loc.find(p[0]);
      if (it != loc.end())
        cur = it->second;
      else
      {
        try
        {
          ratio::expr e = scope->get(p[0]);
          cur = &*e;
        }
        catch (const std::exception &)
        {
          return nullptr;
        }
      }
      for (size_t i = 1; i < p.size(); ++i)
        cur = step(cur, p[i]);
      return cur;
    }
    bool num(ratio::env *scope, const Locals &loc, const Path &p, Val &v)
    {
      if (p.size() == 1 && p[0].find('*') != std::string::npos)
      { // a product of two names (written `a*x` by the generator's `r_mul`): the product of their values, when neither carries an epsilon
        const size_t st = p[0].find('*');
        Val a, b;
        if (!num(scope, loc, Path{p[0].substr(0, st)}, a) || !num(scope, loc, Path{p[0].substr(st + 1)}, b) || a.e != 0 || b.e != 0)
          return false;
        v.r = a.r * b.r;
        v.e = 0;
        return true;
      }
      ratio::item *it = resolve(scope, loc, p);
      auto *ai = dynamic_cast<ratio::arith_item *>(it);
      if (!ai)
        return false;
      smt::inf_rational val = s.arith_value(ratio::arith_expr(ai));
      if (is_infinite(val.get_rational()))
        return false;
      v = conv(val);
      return true;
    }
    bool lin(ratio::env *scope, const Locals &loc, const Lin &l, Val &v)
    {
      v.r = l.k;
      v.e = 0;
      for (auto &t : l.t)
      {
        Val x;
        if (!num(scope, loc, t.second, x))
          return false;
        v.r += t.first * x.r;
        v.e += t.first * x.e;
      }
      return true;
    }
    // the single object a path denotes in the solution (nullptr if none / ambiguous)
    ratio::item *obj(ratio::env *scope, const Locals &loc, const Path &p)
    {
      ratio::item *it = resolve(scope, loc, p);
      if (auto *vi = dynamic_cast<ratio::var_item *>(it))
      {
        auto vals = s.enum_value(ratio::var_expr(vi));
        if (vals.size() != 1)
          return nullptr;
        return static_cast<ratio::item *>(*vals.begin());
      }
      return it;
    }

    // three-valued: 0 false, 1 true, 2 cannot be evaluated
    int eval(const BP &b, ratio::env *scope, const Locals &loc)
    {
      switch (b->k)
      {
      case B::REL:
      {
        Val a, c;
        if (!lin(scope, loc, b->l, a) || !lin(scope, loc, b->r, c))
          return 2;
        int x = vcmp(a, c);
        switch (b->rel)
        {
        case LT:
          return x < 0;
        case LEQ:
          return x <= 0;
        case EQ:
          return x == 0;
        case GEQ:
          return x >= 0;
        case GT:
          return x > 0;
        default:
          return x != 0;
        }
      }
      case B::BVAR:
      {
        auto *bi = dynamic_cast<ratio::bool_item *>(resolve(scope, loc, b->p));
        if (!bi)
          return 2;
        smt::lbool v = s.bool_value(ratio::bool_expr(bi));
        return v == smt::Undefined ? 2 : (v == smt::True ? 1 : 0);
      }
      case B::NOT:
      {
        int a = eval(b->sub[0], scope, loc);
        return a == 2 ? 2 : 1 - a;
      }
      case B::OR:
      {
        int r = 0;
        for (auto &c : b->sub)
        {
          int a = eval(c, scope, loc);
          if (a == 1)
            return 1;
          if (a == 2)
            r = 2;
        }
        return r;
      }
      case B::AND:
      {
        int r = 1;
        for (auto &c : b->sub)
        {
          int a = eval(c, scope, loc);
          if (a == 0)
            return 0;
          if (a == 2)
            r = 2;
        }
        return r;
      }
      case B::XOR:
      {
        int t = 0, u = 0;
        for (auto &c : b->sub)
        {
          int a = eval(c, scope, loc);
          if (a == 1)
            ++t;
          if (a == 2)
            ++u;
        }
        if (t > 1)
          return 0;
        if (u)
          return 2;
        return t == 1;
      }
      case B::IMP:
      {
        int a = eval(b->sub[0], scope, loc), c = eval(b->sub[1], scope, loc);
        if (a == 0 || c == 1)
          return 1;
        if (a == 1 && c == 0)
          return 0;
        return 2;
      }
      case B::BEQ:
      {
        int a = eval(b->sub[0], scope, loc), c = eval(b->sub[1], scope, loc);
        return (a == 2 || c == 2) ? 2 : (a == c);
      }
      case B::OEQ:
      case B::ONEQ:
      {
        ratio::item *a = obj(scope, loc, b->p), *c = obj(scope, loc, b->p2);
        if (!a || !c)
          return 2;
        return b->k == B::OEQ ? (a == c) : (a != c);
      }
      case B::EVAL:
      {
        ratio::item *a = obj(scope, loc, b->p);
        auto *si = dynamic_cast<ratio::string_item *>(a);
        if (!si)
          return 2;
        bool same = si->get_value() == b->sval;
        return b->neg ? !same : same;
      }
      }
      return 2;
    }

    // ---- the causal structure as reported by the listener ----
    std::map<const ratio::atom *, const ratio::atom_flaw *> flaw_of;
    std::map<const ratio::atom *, std::vector<ratio::atom *>> children;
    std::vector<const ratio::atom_flaw *> aflaws;
    void index_flaws()
    {
      flaw_of.clear();
      children.clear();
      aflaws.clear();
      for (auto *f : l.flaws)
        if (auto *af = dynamic_cast<const ratio::atom_flaw *>(f))
        {
          aflaws.push_back(af);
          flaw_of[&af->get_atom()] = af;
          for (auto *r : af->get_causes())
            if (auto *pf = dynamic_cast<const ratio::atom_flaw *>(&r->get_effect()))
              children[&pf->get_atom()].push_back(&af->get_atom());
        }
    }
    smt::lbool sigma(const ratio::atom &a) { return s.get_sat_core().value(a.get_sigma()); }
    smt::lbool lval(const smt::lit &p) { return s.get_sat_core().value(p); }
    const PredD *pred_of(const ratio::atom &a)
    {
      const std::string nm = a.get_type().get_name();
      for (auto &p : m.preds)
        if (p.name == nm)
          return &p;
      return nullptr;
    }
    std::string aname(const ratio::atom &a) { return a.get_type().get_name() + "@" + std::to_string(atom_index(a)); }
    size_t atom_index(const ratio::atom &a)
    {
      for (size_t i = 0; i < aflaws.size(); ++i)
        if (&aflaws[i]->get_atom() == &a)
          return i;
      return 9999;
    }
    const ratio::resolver *activate_res(const ratio::atom_flaw *f)
    {
      for (auto *r : f->get_resolvers())
        if (!ratio::is_unification(*r))
          return r;
      return nullptr;
    }

    void check_all(int units_read);
    std::vector<std::pair<const ratio::atom *, const ratio::atom *>> unified_pairs; // (unified atom, its target), filled by the justification check
    bool nested_zero_length = false; // set by the timeline checks: the solution has a zero-length atom strictly inside another one on a state variable
    void check_toplevel(int units_read);
    void check_rules();
    void check_justification();
    void check_temporal();
    void check_objects(int units_read);
    void check_domains_after_read(int units_read);
    void check_timelines();
  };
} // namespace plan
