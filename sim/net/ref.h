// Reference-side data for the NET engine: exact values, linear expressions, formulas (with z3
// translation and evaluation). Nothing here mirrors watches, trails, tableaux or distance matrices.
#pragma once
#include <gmpxx.h>
#include <z3++.h>
#include <map>
#include <memory>
#include <string>
#include <vector>
#include "rational.h"
#include "inf_rational.h"
#include "lin.h"
#include "lit.h"

namespace net
{
  // extended value: +-infinity or r + e*epsilon
  struct Qx
  {
    int inf = 0;
    mpq_class r = 0, e = 0;
    Qx() {}
    Qx(const mpq_class &r, const mpq_class &e = 0) : r(r), e(e) {}
    static Qx pinf()
    {
      Qx q;
      q.inf = 1;
      return q;
    }
    static Qx ninf()
    {
      Qx q;
      q.inf = -1;
      return q;
    }
  };
  inline int cmp(const Qx &a, const Qx &b)
  {
    if (a.inf || b.inf)
      return a.inf < b.inf ? -1 : (a.inf > b.inf ? 1 : 0);
    int c = ::cmp(a.r, b.r);
    if (c)
      return c < 0 ? -1 : 1;
    c = ::cmp(a.e, b.e);
    return c < 0 ? -1 : (c > 0 ? 1 : 0);
  }
  inline Qx operator+(const Qx &a, const Qx &b)
  {
    if (a.inf)
      return a;
    if (b.inf)
      return b;
    return Qx(a.r + b.r, a.e + b.e);
  }
  inline Qx neg(const Qx &a)
  {
    Qx q(-a.r, -a.e);
    q.inf = -a.inf;
    return q;
  }
  inline Qx scale(const Qx &a, const mpq_class &c)
  {
    if (a.inf)
    {
      Qx q;
      q.inf = sgn(c) * a.inf;
      return q;
    }
    return Qx(a.r * c, a.e * c);
  }
  inline std::string str(const mpq_class &q) { return q.get_str(); }
  inline std::string str(const Qx &q)
  {
    if (q.inf)
      return q.inf > 0 ? "+inf" : "-inf";
    if (q.e == 0)
      return q.r.get_str();
    return q.r.get_str() + (sgn(q.e) > 0 ? "+" : "") + q.e.get_str() + "e";
  }
  inline mpq_class mq(const smt::rational &r) { return mpq_class(mpz_class(r.numerator()), mpz_class(r.denominator())); }
  inline Qx from(const smt::rational &r)
  {
    if (is_infinite(r))
      return is_positive(r) ? Qx::pinf() : Qx::ninf();
    Qx q(mq(r));
    q.r.canonicalize();
    return q;
  }
  inline Qx from(const smt::inf_rational &v)
  {
    if (is_infinite(v.get_rational()))
      return is_positive(v.get_rational()) ? Qx::pinf() : Qx::ninf();
    Qx q(mq(v.get_rational()), is_infinite(v.get_infinitesimal()) ? mpq_class(0) : mq(v.get_infinitesimal()));
    q.r.canonicalize();
    q.e.canonicalize();
    return q;
  }
  inline smt::rational to_rat(const mpq_class &q) { return smt::rational(q.get_num().get_si(), q.get_den().get_si()); }

  // linear expression over theory variables (API ids), exact
  struct LinR
  {
    std::map<int, mpq_class> t;
    mpq_class k = 0;
    void add(int v, const mpq_class &c)
    {
      auto it = t.find(v);
      if (it == t.end())
        t[v] = c;
      else
      {
        it->second += c;
        if (it->second == 0)
          t.erase(it);
      }
    }
    LinR minus(const LinR &o) const
    {
      LinR r = *this;
      for (auto &p : o.t)
        r.add(p.first, -p.second);
      r.k -= o.k;
      return r;
    }
    LinR times(const mpq_class &c) const
    {
      LinR r;
      if (c == 0)
        return r;
      for (auto &p : t)
        r.t[p.first] = p.second * c;
      r.k = k * c;
      return r;
    }
    std::string text(const char *pfx) const
    {
      std::string s;
      for (auto &p : t)
        s += (s.empty() ? "" : " + ") + p.second.get_str() + "*" + pfx + std::to_string(p.first);
      if (s.empty() || k != 0)
        s += (s.empty() ? "" : " + ") + k.get_str();
      return s;
    }
    // the repo's lin built directly from members (never through the repo's own lin operators)
    smt::lin to_lin() const
    {
      smt::lin l;
      for (auto &p : t)
        l.vars.emplace(static_cast<smt::var>(p.first), to_rat(p.second));
      l.known_term = to_rat(k);
      return l;
    }
  };

  enum Th
  {
    LRA = 0,
    IDL = 1,
    RDL = 2
  };
  enum Rel
  {
    LT = 0,
    LEQ = 1,
    EQ = 2,
    GEQ = 3,
    GT = 4
  };
  inline const char *rel_name(int r)
  {
    static const char *n[] = {"<", "<=", "==", ">=", ">"};
    return n[r];
  }

  struct F;
  using FP = std::shared_ptr<F>;
  struct F
  {
    enum K
    {
      CONST,
      LIT,
      NOT,
      AND,
      OR,
      IFF,
      IMP,
      AMO,
      EXO,
      ATOM
    } k = CONST;
    bool cval = true;
    smt::lit l;
    std::vector<FP> sub;
    int th = 0;
    LinR e; // ATOM: e rel 0
    int rel = 0;
  };
  inline FP f_const(bool b)
  {
    auto f = std::make_shared<F>();
    f->k = F::CONST;
    f->cval = b;
    return f;
  }
  inline FP f_lit(smt::lit l)
  {
    auto f = std::make_shared<F>();
    f->k = F::LIT;
    f->l = l;
    return f;
  }
  inline FP f_n(F::K k, std::vector<FP> sub)
  {
    auto f = std::make_shared<F>();
    f->k = k;
    f->sub = std::move(sub);
    return f;
  }
  inline FP f_atom(int th, const LinR &e, int rel)
  {
    auto f = std::make_shared<F>();
    f->k = F::ATOM;
    f->th = th;
    f->e = e;
    f->rel = rel;
    return f;
  }
  inline std::string f_text(const FP &f)
  {
    switch (f->k)
    {
    case F::CONST:
      return f->cval ? "T" : "F";
    case F::LIT:
      return std::string(sign(f->l) ? "" : "!") + "b" + std::to_string(variable(f->l));
    case F::ATOM:
      return std::string("(") + f->e.text(f->th == LRA ? "x" : (f->th == IDL ? "i" : "r")) + " " + rel_name(f->rel) + " 0)";
    default:
    {
      static const char *n[] = {"", "", "not", "and", "or", "iff", "imp", "amo", "exo", ""};
      std::string s = std::string("(") + n[f->k];
      for (auto &c : f->sub)
        s += " " + f_text(c);
      return s + ")";
    }
    }
  }
} // namespace net
