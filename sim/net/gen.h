// Seeded generator of NET histories. Blind: it never looks at the network; arguments are interpreted
// modulo what exists when the op executes. Per-property profiles bias the mix (swarm style: sizes,
// mix, theory set, matrix size and layout all vary per run).
#pragma once
#include "../core/common.h"
#include <string>
#include <vector>

namespace net
{
  using sim::Op;
  using sim::Rng;

  struct RunParams
  {
    long dl_size = 16, th_mask = 15, th_order = 0;
    bool layout_random = true;
  };

  struct Weights
  {
    std::vector<std::pair<std::string, int>> w;
    int total = 0;
    void add(const std::string &n, int k)
    {
      if (k > 0)
      {
        w.push_back({n, k});
        total += k;
      }
    }
    const std::string &pick(Rng &r) const
    {
      long x = static_cast<long>(r.below(static_cast<uint64_t>(total)));
      for (auto &p : w)
      {
        if (x < p.second)
          return p.first;
        x -= p.second;
      }
      return w.back().first;
    }
  };

  inline void gen_lits(Rng &r, Op &op, int maxn, int minn = 1)
  {
    long n = r.range(minn, maxn);
    op.a.push_back(n);
    for (long i = 0; i < n; ++i)
    {
      op.a.push_back(static_cast<long>(r.below(2)));
      op.a.push_back(r.chance(1, 40) ? 0 : static_cast<long>(1 + r.below(40)));
    }
  }
  inline void gen_lin(Rng &r, Op &op, int maxterms, bool ints, int kmax, int minterms = 0)
  {
    long n = r.range(minterms, maxterms);
    op.a.push_back(n);
    for (long i = 0; i < n; ++i)
    {
      long num = r.chance(2, 3) ? (r.chance(1, 2) ? 1 : -1) : r.range(-5, 5);
      if (num == 0)
        num = 1;
      op.a.push_back(num);
      op.a.push_back(ints || r.chance(3, 4) ? 0 : static_cast<long>(r.below(4)));
      op.a.push_back(static_cast<long>(r.below(12)));
    }
    op.a.push_back(r.range(-kmax, kmax));
    op.a.push_back(ints || r.chance(3, 4) ? 0 : static_cast<long>(r.below(4)));
  }

  inline Op gen_op(Rng &r, const std::string &name, int dlk)
  {
    Op op;
    op.name = name;
    if (name == "clause")
      gen_lits(r, op, r.chance(1, 6) ? 5 : 3, r.chance(1, 5) ? 1 : 2);
    else if (name == "fact")
    { // a constraint literal asserted at root (the way the planner uses the theories most of the time)
      op.name = "clause";
      op.a = {1, static_cast<long>(r.chance(3, 4) ? 1 : 0), 2000 + static_cast<long>(r.below(40))};
    }
    else if (name == "eq")
    {
      for (int i = 0; i < 2; ++i)
      {
        op.a.push_back(static_cast<long>(r.below(2)));
        op.a.push_back(r.chance(1, 10) ? 0 : static_cast<long>(1 + r.below(40)));
      }
    }
    else if (name == "conj" || name == "disj")
      gen_lits(r, op, 4, r.chance(1, 8) ? 0 : 1);
    else if (name == "amo" || name == "exo")
      gen_lits(r, op, r.chance(1, 2) ? 9 : 4, r.chance(1, 8) ? 0 : 2);
    else if (name == "lder")
      gen_lin(r, op, 3, false, 6, 1);
    else if (name == "lrel")
    {
      op.a.push_back(static_cast<long>(r.below(5)));
      gen_lin(r, op, 3, false, 8, r.chance(1, 10) ? 0 : 1);
      gen_lin(r, op, r.chance(1, 2) ? 0 : 2, false, 8);
    }
    else if (name == "idist" || name == "rdist")
    {
      op.a = {static_cast<long>(r.below(10)), static_cast<long>(r.below(10)), r.range(-dlk, dlk), static_cast<long>(r.below(4)), static_cast<long>(r.below(3) == 0)};
    }
    else if (name == "idist2" || name == "rdist2")
    {
      long mn = r.range(-dlk, dlk);
      op.a = {static_cast<long>(r.below(10)), static_cast<long>(r.below(10)), mn, static_cast<long>(r.below(4)), mn + r.range(0, dlk), static_cast<long>(r.below(4))};
    }
    else if (name == "irel" || name == "rrel")
    {
      bool ints = name == "irel" && !r.chance(1, 10);
      op.a.push_back(static_cast<long>(r.below(5)));
      // mostly difference shapes: (x) vs (y + k), sometimes scaled, sometimes not a difference at all
      int shape = static_cast<int>(r.below(10));
      if (shape < 7)
      {
        gen_lin(r, op, 1, ints, dlk, r.chance(1, 12) ? 0 : 1);
        gen_lin(r, op, 1, ints, dlk, r.chance(1, 3) ? 0 : 1);
      }
      else
      {
        gen_lin(r, op, 2, ints, dlk, 1);
        gen_lin(r, op, 2, ints, dlk, 0);
      }
    }
    else if (name == "iq" || name == "rq")
    {
      bool ints = name == "iq";
      op.a.push_back(static_cast<long>(r.below(3)));
      gen_lin(r, op, r.chance(1, 3) ? 2 : 1, ints, dlk, r.chance(1, 10) ? 0 : 1);
      gen_lin(r, op, 1, ints, dlk, r.chance(1, 3) ? 0 : 1);
    }
    else if (name == "ovar")
    {
      op.a.push_back(r.chance(4, 5) ? 1 : 0);
      long n = r.chance(1, 6) ? 0 : r.range(1, 4);
      op.a.push_back(n);
      for (int i = 0; i < 5; ++i)
        op.a.push_back(static_cast<long>(r.below(6)));
      op.a.push_back(static_cast<long>(r.chance(1, 4) ? 1 : 0)); // keep values listed twice
    }
    else if (name == "ovar2")
    {
      op.a.push_back(r.range(0, 3));
      for (int i = 0; i < 4; ++i)
      {
        op.a.push_back(static_cast<long>(r.below(2)));
        op.a.push_back(static_cast<long>(1 + r.below(40)));
        op.a.push_back(static_cast<long>(r.below(6)));
      }
    }
    else if (name == "oeq")
      op.a = {static_cast<long>(r.below(8)), static_cast<long>(r.below(8))};
    else if (name == "assume")
      op.a = {static_cast<long>(r.below(2)), static_cast<long>(r.below(64))};
    else if (name == "popto")
      op.a = {static_cast<long>(r.below(8))};
    else if (name == "check")
      gen_lits(r, op, 3);
    else if (name == "sweep")
      op.a = {static_cast<long>(r.below(16)), static_cast<long>(r.below(128))};
    else if (name == "cbound") // guard, variable, lower/upper/both, numerator, denominator, strict
      op.a = {static_cast<long>(r.below(8)), static_cast<long>(r.chance(1, 2) ? 1000 + r.below(3) : r.below(12)), static_cast<long>(r.chance(1, 6) ? 2 : r.below(2)), r.range(-8, 8), static_cast<long>(r.chance(3, 4) ? 0 : r.below(4)), static_cast<long>(r.chance(1, 5) ? 1 : 0), static_cast<long>(r.below(4))};
    return op;
  }

  // returns the op list and fills the run parameters
  inline std::vector<Op> generate(uint64_t seed, const std::string &prop, RunParams &rp, const std::string &world = "")
  {
    Rng swarm = Rng(seed).derive("swarm"), g = Rng(seed).derive("gen");
    static const long sizes[] = {2, 3, 4, 16};
    rp.dl_size = sizes[swarm.below(4)];
    rp.th_order = static_cast<long>(swarm.below(24));
    rp.layout_random = !swarm.chance(1, 8);
    Weights create, search;
    int n_create = 10, n_search = 25;
    int dlk = swarm.chance(1, 2) ? 6 : 15;
    bool use_lra = false, use_idl = false, use_rdl = false, use_ov = false;
    if (prop == "C07")
    {
      use_lra = swarm.chance(1, 3);
      use_idl = swarm.chance(1, 3);
      use_rdl = swarm.chance(1, 3);
      use_ov = swarm.chance(1, 4);
      create.add("bvar", 30), create.add("clause", 40), create.add("eq", 4), create.add("conj", 4), create.add("disj", 4), create.add("amo", 3), create.add("exo", 3), create.add("prop", 4), create.add("simp", 4);
      n_create = static_cast<int>(swarm.range(8, 30));
      n_search = static_cast<int>(swarm.range(10, 40));
    }
    else if (prop == "C08")
    {
      use_lra = !swarm.chance(1, 5), use_idl = !swarm.chance(1, 3), use_rdl = !swarm.chance(1, 3), use_ov = swarm.chance(1, 2);
      create.add("bvar", 8), create.add("clause", 12), create.add("prop", 3);
      n_create = static_cast<int>(swarm.range(12, 30));
      n_search = static_cast<int>(swarm.range(20, 50));
    }
    else if (prop == "C09" || prop == "C11" || prop == "C20")
    {
      use_lra = true;
      create.add("bvar", 3), create.add("clause", prop == "C11" ? 14 : 8), create.add("prop", prop == "C11" ? 8 : 3);
      n_create = static_cast<int>(swarm.range(10, 28));
      n_search = static_cast<int>(swarm.range(10, 40));
    }
    else if (prop == "C10" || prop == "C12")
    {
      use_idl = swarm.chance(1, 2);
      use_rdl = !use_idl || swarm.chance(1, 4);
      create.add("bvar", 2), create.add("clause", 10), create.add("prop", 5);
      n_create = static_cast<int>(swarm.range(10, 30));
      n_search = static_cast<int>(swarm.range(10, 40));
    }
    else if (prop == "C13")
    {
      use_ov = swarm.chance(1, 5);
      create.add("bvar", 30), create.add("clause", 14), create.add("eq", 12), create.add("conj", 12), create.add("disj", 12), create.add("amo", 14), create.add("exo", 14), create.add("prop", 6), create.add("simp", 2);
      n_create = static_cast<int>(swarm.range(8, 26));
      n_search = static_cast<int>(swarm.range(4, 20));
    }
    else // C14
    {
      use_ov = true;
      create.add("bvar", 6), create.add("clause", 10), create.add("prop", 3);
      n_create = static_cast<int>(swarm.range(6, 20));
      n_search = static_cast<int>(swarm.range(8, 30));
    }
    // "tiny world" runs (small-scope): one arithmetic theory, 2-3 of its variables, a handful of constraints over them,
    // a few short clauses among the constraint literals and a long walk of assume/pop: the walk visits a large part of
    // the (assignment, backtracking history) space of such a network, which wide random networks practically never do.
    bool tiny = false;
    const bool tiny_draw = swarm.chance(1, 3);
    if (world == "cycle" && !use_idl && !use_rdl)
      use_rdl = true;
    if ((use_lra || use_idl || use_rdl) && prop != "C13" && prop != "C14" && prop != "C20" && (world.empty() ? tiny_draw : world != "wide"))
    {
      tiny = true;
      std::vector<int> th;
      if (use_lra)
        th.push_back(0);
      if (use_idl)
        th.push_back(1);
      if (use_rdl)
        th.push_back(2);
      int t = th[swarm.below(th.size())];
      use_lra = t == 0, use_idl = t == 1, use_rdl = t == 2, use_ov = false;
      dlk = swarm.chance(1, 2) ? 3 : 6;
    }
    rp.th_mask = (use_lra ? 1 : 0) | (use_idl ? 2 : 0) | (use_rdl ? 4 : 0) | (use_ov ? 8 : 0);
    if (use_lra)
    {
      create.add("lvar", 12), create.add("lder", 5), create.add("lrel", prop == "C11" ? 40 : 22);
    }
    if (use_idl)
    {
      create.add("ivar", 10), create.add("idist", prop == "C12" ? 6 : 20), create.add("idist2", 4), create.add("irel", prop == "C12" ? 30 : 6);
      if (prop == "C12")
        create.add("iq", 12);
    }
    if (use_rdl)
    {
      create.add("rvar", 10), create.add("rdist", prop == "C12" ? 6 : 20), create.add("rdist2", 4), create.add("rrel", prop == "C12" ? 30 : 6);
      if (prop == "C12")
        create.add("rq", 12);
    }
    if (use_ov)
    {
      create.add("ovar", prop == "C14" ? 25 : 8), create.add("ovar2", prop == "C14" ? 4 : 1), create.add("oeq", prop == "C14" ? 25 : 6);
    }
    if (use_lra || use_idl || use_rdl || use_ov)
      create.add("fact", prop == "C12" || prop == "C11" || prop == "C14" ? 8 : 4);
    search.add("assume", 50), search.add("pop", 12), search.add("popto", 6), search.add("next", 8), search.add("check", 10), search.add("prop", 2);
    if (prop == "C13" || prop == "C14")
      search.add("sweep", 25);
    if (prop == "C12")
    {
      if (use_idl)
        search.add("iq", 25);
      if (use_rdl)
        search.add("rq", 25);
    }
    // "client bound" runs: a simulated client of the LRA theory (the executor's protocol) decides literals of its own and imposes
    // bounds directly, outside propagation; conflicts found there are handed to theory::backtrack_analyze_and_backjump.
    // (Own stream: histories of the other runs are unchanged.)
    const bool client = use_lra && Rng(seed).derive("client").chance(1, prop == "C09" || prop == "C11" || prop == "C20" ? 2 : 3);
    if (client)
    {
      create.add("guard", 8);
      search.add("cbound", 30);
    }
    // "ladder" runs: bursts of several constraints over the same pair of time points (or the same linear expression)
    // with different constants, related to each other by short clauses over the literals just created; assumptions
    // then prefer recent literals. Reaches: one edge/bound tightened more than once within a decision level, an older
    // constraint on the same edge standing from an outer level, redundant and subsumed constraints.
    const bool ladder = (use_idl || use_rdl || use_lra) && swarm.chance(2, 5);
    auto burst = [&](std::vector<Op> &out)
    {
      std::vector<int> th;
      if (use_idl)
        th.push_back(0);
      if (use_rdl)
        th.push_back(1);
      if (use_lra)
        th.push_back(2);
      int t = th[g.below(th.size())];
      int n = static_cast<int>(g.range(2, 4));
      if (t == 2)
      {
        Op proto = gen_op(g, "lrel", dlk);
        for (int i = 0; i < n; ++i)
        {
          Op o = proto;
          o.a[0] = static_cast<long>(g.below(5));
          o.a[o.a.size() - 2] = g.chance(1, 2) ? g.range(-2, 2) : g.range(-8, 8); // the constant of the right-hand side (often the same again)
          out.push_back(o);
          if (g.chance(1, 3))
          { // the relation just created becomes a root-level fact before the next one over the same expression is asked for
            Op f;
            f.name = "clause";
            f.a = {1, static_cast<long>(g.chance(4, 5) ? 1 : 0), 1000};
            out.push_back(f);
            Op pr;
            pr.name = "prop";
            out.push_back(pr);
          }
        }
      }
      else
      {
        Op proto = gen_op(g, t == 0 ? "idist" : "rdist", dlk);
        for (int i = 0; i < n; ++i)
        {
          Op o = proto;
          if (g.chance(1, 5))
            std::swap(o.a[0], o.a[1]);
          o.a[2] = g.range(-dlk, dlk);
          o.a[4] = static_cast<long>(g.below(3) == 0);
          out.push_back(o);
          if (g.chance(1, 4))
          {
            Op f;
            f.name = "clause";
            f.a = {1, static_cast<long>(g.chance(4, 5) ? 1 : 0), 1000};
            out.push_back(f);
            Op pr;
            pr.name = "prop";
            out.push_back(pr);
          }
        }
      }
      for (int i = 0, k = static_cast<int>(g.range(0, 3)); i < k; ++i)
      {
        Op c;
        c.name = "clause";
        if (g.chance(2, 3))
        { // one of the burst implies another one
          long x = static_cast<long>(g.below(n)), y = static_cast<long>(g.below(n - 1));
          if (y >= x)
            ++y;
          c.a = {2, 0, 1000 + x, 1, 1000 + y};
        }
        else
          c.a = {2, static_cast<long>(g.below(2)), 1000 + static_cast<long>(g.below(n)), static_cast<long>(g.below(2)), 1000 + static_cast<long>(g.below(2 * n + 2))};
        out.push_back(c);
      }
    };
    if (tiny)
    {
      std::vector<Op> ops;
      ops.push_back(gen_op(g, "bvar", dlk));
      const char *var = use_lra ? "lvar" : (use_idl ? "ivar" : "rvar");
      const char *mk = use_lra ? "lrel" : (use_idl ? "idist" : "rdist");
      for (int i = 0, n = static_cast<int>(swarm.range(2, 3)); i < n; ++i)
        ops.push_back(gen_op(g, var, dlk));
      if (client)
        for (int i = 0; i < 3; ++i)
          ops.push_back(gen_op(g, "guard", dlk));
      const bool cycle_draw = swarm.chance(1, 2);
      if (world == "cycle" && use_lra)
        use_lra = false, use_rdl = true, rp.th_mask = 4;
      if (!use_lra && (world.empty() ? cycle_draw : world == "cycle"))
      { // "ladder on a cycle": three time points a, b, c; several rungs (same pair, different bounds) on a->b, implications
        // among rungs, one or two constraints on each of b->c and c->a, then a long walk. Exercises what backtracking has
        // to restore when one edge is tightened more than once inside a decision level over a bound set at an outer level.
        std::vector<Op> ops;
        ops.push_back(gen_op(g, "bvar", dlk));
        for (int i = 0; i < 3; ++i)
          ops.push_back(gen_op(g, var, dlk));
        long pa = static_cast<long>(swarm.below(3)), pb = (pa + 1 + static_cast<long>(swarm.below(2))) % 3, pc = 3 - pa - pb;
        if (swarm.chance(1, 2))
          pa += 1, pb += 1, pc += 1; // with 3 created points + origin: shift away from the origin half of the time
        int rungs = static_cast<int>(swarm.range(3, 4));
        auto dist = [&](long f, long t, long k)
        {
          Op o;
          o.name = mk;
          o.a = {f, t, k, static_cast<long>(g.below(2)), static_cast<long>(g.below(4) == 0)};
          ops.push_back(o);
        };
        for (int i = 0; i < rungs; ++i)
          dist(pa, pb, g.range(-2, 12));
        for (int i = 0, n = static_cast<int>(swarm.range(1, 2)); i < n; ++i)
          dist(pb, pc, g.range(-4, 6));
        for (int i = 0, n = static_cast<int>(swarm.range(1, 2)); i < n; ++i)
          dist(pc, pa, g.range(-14, 2));
        for (int i = 0, n = static_cast<int>(swarm.range(0, 2)); i < n; ++i)
          ops.push_back(gen_op(g, mk, dlk));
        for (int i = 0, n = static_cast<int>(swarm.range(1, 3)); i < n; ++i)
        {
          Op c;
          c.name = "clause";
          long x = static_cast<long>(g.below(rungs)), y = static_cast<long>(g.below(rungs - 1));
          if (y >= x)
            ++y;
          c.a = {2, 0, 2000 + x, 1, 2000 + y};
          if (g.chance(1, 4))
            c.a[3] = 0;
          if (g.chance(1, 4))
            c.a[4] = 2000 + static_cast<long>(g.below(12));
          ops.push_back(c);
        }
        Weights walk;
        walk.add("assume", 50), walk.add("pop", 25), walk.add("popto", 3), walk.add("check", 5), walk.add("next", 3);
        for (int i = 0, n = static_cast<int>(swarm.range(40, 120)); i < n; ++i)
        {
          ops.push_back(gen_op(g, walk.pick(g), dlk));
          if (ops.back().name == "assume")
            ops.back().a[1] += 2000, ops.back().a[0] = g.chance(3, 4) ? 1 : 0;
        }
        return ops;
      }
      const long fa = static_cast<long>(swarm.below(10)), fb = static_cast<long>(swarm.below(10));
      const bool focus = swarm.chance(2, 3); // most constraints over one pair of time points, in either direction
      for (int i = 0, n = static_cast<int>(swarm.range(4, 9)); i < n; ++i)
      {
        ops.push_back(gen_op(g, mk, dlk));
        if (!use_lra && focus && g.chance(2, 3))
        {
          ops.back().a[0] = fa, ops.back().a[1] = fb;
          if (g.chance(1, 4))
            std::swap(ops.back().a[0], ops.back().a[1]);
        }
        if (use_lra)
        { // x_i <op> k or x_i <op> x_j + k
          Op &o = ops.back();
          o.a.clear();
          o.a.push_back(static_cast<long>(g.below(5)));
          o.a.insert(o.a.end(), {1, 1, 0, static_cast<long>(g.below(3)), 0, 0});
          if (g.chance(1, 2))
            o.a.insert(o.a.end(), {1, 1, 0, static_cast<long>(g.below(3)), g.range(-dlk, dlk), 0});
          else
            o.a.insert(o.a.end(), {0, g.range(-dlk, dlk), 0});
        }
      }
      for (int i = 0, n = static_cast<int>(swarm.range(0, 6)); i < n; ++i)
      {
        Op c;
        c.name = "clause";
        c.a = {2, static_cast<long>(g.below(2)), 2000 + static_cast<long>(g.below(12)), static_cast<long>(g.below(2)), 2000 + static_cast<long>(g.below(12))};
        if (g.chance(1, 2))
          c.a[1] = 0, c.a[3] = 1; // x -> y
        else if (g.chance(1, 4))
          c.a[0] = 3, c.a.push_back(static_cast<long>(g.below(2))), c.a.push_back(static_cast<long>(g.below(12)));
        ops.push_back(c);
      }
      if (client && use_lra)
      { // a client's bounds meet bounds that hold for good: some of the relations become root-level facts
        for (int i = 0, n = static_cast<int>(g.range(1, 3)); i < n; ++i)
        {
          Op f;
          f.name = "clause";
          f.a = {1, static_cast<long>(g.chance(2, 3) ? 1 : 0), 2000 + static_cast<long>(g.below(12))};
          ops.push_back(f);
        }
        Op pr;
        pr.name = "prop";
        ops.push_back(pr);
      }
      Weights walk;
      walk.add("assume", 50), walk.add("pop", 25), walk.add("popto", 4), walk.add("check", 8), walk.add("next", 4);
      if (prop == "C12")
        walk.add(use_idl ? "iq" : "rq", use_lra ? 0 : 20);
      if (client && use_lra)
        walk.add("cbound", 20);
      for (int i = 0, n = static_cast<int>(use_lra ? swarm.range(12, 40) : swarm.range(30, 80)); i < n; ++i)
      {
        ops.push_back(gen_op(g, walk.pick(g), dlk));
        if (ops.back().name == "assume" && g.chance(7, 8))
          ops.back().a[1] += 2000;
      }
      return ops;
    }
    std::vector<Op> ops;
    // a few variables of each kind first so that modulo references resolve
    int nb = static_cast<int>(swarm.range(2, prop == "C07" || prop == "C13" ? 8 : 4));
    for (int i = 0; i < nb; ++i)
      ops.push_back(gen_op(g, "bvar", dlk));
    if (use_lra)
      for (int i = 0, n = static_cast<int>(swarm.range(2, 5)); i < n; ++i)
        ops.push_back(gen_op(g, "lvar", dlk));
    if (use_idl)
      for (int i = 0, n = static_cast<int>(swarm.chance(1, 12) ? 18 : swarm.range(2, 6)); i < n; ++i)
        ops.push_back(gen_op(g, "ivar", dlk));
    if (use_rdl)
      for (int i = 0, n = static_cast<int>(swarm.chance(1, 12) ? 18 : swarm.range(2, 6)); i < n; ++i)
        ops.push_back(gen_op(g, "rvar", dlk));
    for (int i = 0; i < n_create; ++i)
    {
      if (ladder && g.chance(1, 5))
        burst(ops);
      ops.push_back(gen_op(g, create.pick(g), dlk));
      // the same argument list handed to a second construct (callers do ask for "at most one" and "exactly one" of the same literals)
      const std::string nm = ops.back().name;
      if ((nm == "amo" || nm == "exo" || nm == "conj" || nm == "disj") && g.chance(1, 4))
      {
        Op again = ops.back();
        again.name = nm == "amo" ? "exo" : nm == "exo" ? "amo" : nm == "conj" ? "disj" : "conj";
        ops.push_back(again);
      }
    }
    for (int i = 0; i < n_search; ++i)
    {
      if (g.chance(1, 14))
      { // back to root, create a little more, continue searching
        Op p;
        p.name = "popto";
        p.a = {0};
        ops.push_back(p);
        for (int k = 0, n = static_cast<int>(g.range(1, 4)); k < n; ++k)
          ops.push_back(gen_op(g, create.pick(g), dlk));
      }
      ops.push_back(gen_op(g, search.pick(g), dlk));
      if (ladder && ops.back().name == "assume" && g.chance(1, 2))
        ops.back().a[1] = 1000 + static_cast<long>(g.below(12));
    }
    return ops;
  }
} // namespace net
