#include "engine.h"

namespace net
{
  Run *Run::self = nullptr;

  Run::Run(uint64_t seed, unsigned enabled, bool verbose) : enabled(enabled), verbose(verbose), rng(seed)
  {
    self = this;
    log.keep = false;
  }
  Run::~Run()
  {
    smt::verif::on_record = nullptr;
    smt::verif::on_new_clause = nullptr;
    self = nullptr;
    // the SUT objects are deliberately not destroyed: the child process exits right after the run
  }

  void Run::hook(const smt::sat_core &, const std::vector<lit> &c)
  {
    if (self)
    {
      self->pending_clauses.push_back(c);
      if (self->enabled & O_N11)
      {
        sim::layout::Suspend s;
        self->all_clauses.push_back(c);
      }
    }
  }
  void Run::hook_new_clause(const smt::sat_core &, const std::vector<lit> &c)
  {
    if (self && (self->enabled & O_N11))
    {
      sim::layout::Suspend s;
      self->all_clauses.push_back(c);
    }
  }

  void Run::setup(long dl_size, long th_mask, long th_order)
  {
    sat = new smt::sat_core();
    // theory construction order decides the order of sat_core::theories (check order); swarm parameter
    std::vector<int> order = {0, 1, 2, 3};
    for (int i = 3; i > 0; --i)
    {
      int j = static_cast<int>(th_order % (i + 1));
      th_order /= (i + 1);
      std::swap(order[i], order[j]);
    }
    for (int t : order)
      switch (t)
      {
      case 0:
        if (th_mask & 1)
          lra = new smt::lra_theory(*sat);
        break;
      case 1:
        if (th_mask & 2)
          idl = new smt::idl_theory(*sat, static_cast<size_t>(dl_size));
        break;
      case 2:
        if (th_mask & 4)
          rdl = new smt::rdl_theory(*sat, static_cast<size_t>(dl_size));
        break;
      case 3:
        if (th_mask & 8)
          ov = new smt::ov_theory(*sat);
        break;
      }
    for (int i = 0; i < 6; ++i)
    {
      PoolVal *p = new PoolVal();
      p->id = i;
      pool.push_back(p);
    }
    blist.push_back(smt::FALSE_var);
    bknown.insert(smt::FALSE_var);
    smt::verif::on_record = &Run::hook;
    smt::verif::on_new_clause = &Run::hook_new_clause;
    tr("setup dl_size=" + std::to_string(dl_size) + " th_mask=" + std::to_string(th_mask));
  }

  void Run::viol(unsigned bit, const std::string &oracle, const std::string &cls, const std::string &msg)
  {
    Violation v;
    v.bit = bit;
    v.oracle = oracle;
    v.cls = cls;
    v.msg = msg;
    v.op_index = cur_op;
    if (enabled & bit)
    {
      violations.push_back(v);
      stop = true;
      tr("VIOLATION " + oracle + " " + cls + " " + msg);
    }
    else
    {
      if (others.size() < 20)
        others.push_back(v);
      cnt.inc("other_oracle." + oracle);
    }
  }

  smt::var Run::probe()
  {
    smt::var v = sat->new_var();
    reg(v);
    return v;
  }

  std::vector<smt::var> Run::fresh_between(smt::var probe_id, lit ret)
  {
    std::vector<smt::var> r;
    if (variable(ret) > probe_id && !bknown.count(variable(ret)))
      for (smt::var v = probe_id + 1; v < variable(ret); ++v)
        r.push_back(v);
    return r;
  }

  // lin encoding inside an op: n, then n x (num, den, var), then knum, kden. Variables modulo nvars,
  // starting at 'first' (DL lins never mention the origin). Zero coefficients are never produced.
  LinR Run::parse_lin(const Op &op, size_t &pos, const std::vector<int> &usable)
  {
    LinR e;
    long n = op.arg(pos++);
    if (n < 0)
      n = -n;
    n %= 5;
    for (long i = 0; i < n; ++i)
    {
      long num = op.arg(pos++), den = op.arg(pos++), v = op.arg(pos++);
      if (den < 0)
        den = -den;
      den = den % 4 + 1;
      if (num == 0)
        num = 1;
      if (num > 6 || num < -6)
        num %= 7;
      if (num == 0)
        num = 1;
      if (v < 0)
        v = -v;
      if (usable.empty())
        continue;
      int var = usable[static_cast<size_t>(v) % usable.size()];
      mpq_class c(num, den);
      c.canonicalize();
      e.add(var, c);
    }
    long kn = op.arg(pos++), kd = op.arg(pos++);
    if (kd < 0)
      kd = -kd;
    kd = kd % 4 + 1;
    if (kn > 40 || kn < -40)
      kn %= 41;
    e.k = mpq_class(kn, kd);
    e.k.canonicalize();
    return e;
  }

  std::vector<int> Run::lra_usable() const
  {
    std::vector<int> u;
    for (size_t v = 0; v < lra_defs.size(); ++v)
      if (!lra_internal.count(v))
        u.push_back(static_cast<int>(v));
    return u;
  }
  std::vector<int> Run::dl_usable(int th) const
  {
    std::vector<int> u;
    for (int v = 1; v < (th == IDL ? n_idl : n_rdl); ++v)
      u.push_back(v);
    return u;
  }
  // a fresh LRA variable id v was handed out: ids we never saw in between are internal slacks
  void Run::lra_sync(smt::var v)
  {
    while (lra_defs.size() < v)
    {
      lra_internal.insert(lra_defs.size());
      lra_defs.push_back({false, LinR()});
      cnt.inc("lra_slacks_seen");
    }
  }

  std::vector<lit> Run::parse_lits(const Op &op, size_t &pos)
  {
    std::vector<lit> ls;
    long n = op.arg(pos++);
    if (n < 0)
      n = -n;
    n %= 10;
    for (long i = 0; i < n; ++i)
    {
      long s = op.arg(pos++), k = op.arg(pos++);
      ls.push_back(ref_lit(s, k));
    }
    return ls;
  }

  std::vector<z3::expr> Run::zdecisions()
  {
    std::vector<z3::expr> d;
    std::vector<lit> dec;
    {
      dec = sat->get_decisions();
    }
    sim::layout::Suspend s;
    for (auto &l : dec)
      d.push_back(z.zl(l));
    return d;
  }

  void Run::exec(const std::vector<Op> &ops)
  {
    for (size_t i = 0; i < ops.size() && !stop && !dead && !discard; ++i)
    {
      cur_op = i;
      tr("op " + std::to_string(i) + " " + ops[i].text());
      try
      {
        exec_op(ops[i]);
      }
      catch (const z3::exception &e)
      {
        inconclusive = true;
        tr(std::string("z3 exception: ") + e.msg());
        break;
      }
      catch (const std::exception &e)
      {
        viol(O_X, "X", "X.exception", std::string("unexpected exception escaped the API: ") + e.what());
        break;
      }
      ops_done = i + 1;
    }
    cnt.inc("z3_queries", z.n_queries);
    cnt.inc("z3_unknown", z.n_unknown);
    cnt.inc("facts", static_cast<long>(facts.size()));
  }
} // namespace net
