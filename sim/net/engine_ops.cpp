#include "engine.h"

namespace net
{
  using sim::layout::Suspend;

  void Run::ensure_clean()
  {
    if (queue_clean || dead)
      return;
    bool r = sat->propagate();
    queue_clean = true;
    tr(std::string("auto-propagate -> ") + (r ? "true" : "false"));
    after_op(true, r, {}, "prop");
  }

  // The returned literal of a creation call against its intended meaning (oracle N8):
  // constant -> must be entailed at root; existing literal -> must be equivalent; fresh -> definition added.
  void Run::register_result(lit ret, const FP &meaning, unsigned n8bit, const char *what, std::function<void(smt::var)> on_fresh)
  {
    if (variable(ret) == smt::FALSE_var || known(ret))
    {
      cnt.inc(variable(ret) == smt::FALSE_var ? "n8.constant_result" : "n8.shared_result");
      std::vector<z3::expr> q;
      {
        Suspend s;
        q.push_back(z.zl(ret) != z.zf(meaning));
      }
      int r = z.check_with(q);
      if (r == 1)
        viol(n8bit, "N8", std::string("N8.") + what + (variable(ret) == smt::FALSE_var ? ".constant" : ".shared"),
             "creation call returned " + lstr(ret) + " for " + f_text(meaning) + " but that is not equivalent under what was created so far");
      else if (r == 2)
        cnt.inc("inconclusive.n8");
    }
    else
    {
      reg(variable(ret));
      tlist.push_back(variable(ret));
      add_fact(f_n(F::IFF, {f_lit(ret), meaning}));
      if (on_fresh)
        on_fresh(variable(ret));
      cnt.inc("n8.fresh_result");
    }
  }

  void Run::op_bool_construct(const Op &op, int kind)
  {
    if (!sat->root_level())
    {
      cnt.inc("skipped.not_root");
      return;
    }
    size_t pos = 0;
    std::vector<lit> args;
    if (kind == 0)
    {
      args.push_back(ref_lit(op.arg(0), op.arg(1)));
      args.push_back(ref_lit(op.arg(2), op.arg(3)));
    }
    else
      args = parse_lits(op, pos);
    make_construct(kind, args);
  }

  lit Run::make_construct(int kind, const std::vector<lit> &args)
  {
    ++epoch;
    // meaning over the *set* of distinct argument literals
    std::vector<lit> distinct;
    for (auto &l : args)
      if (std::find(distinct.begin(), distinct.end(), l) == distinct.end())
        distinct.push_back(l);
    std::vector<FP> fs;
    for (auto &l : (kind == 0 ? args : distinct))
      fs.push_back(f_lit(l));
    lit ret;
    FP meaning;
    std::string s = "args";
    for (auto &l : args)
      s += " " + lstr(l) + "=" + vstr(sat->value(l));
    switch (kind)
    {
    case 0:
      meaning = f_n(F::IFF, fs);
      ret = sat->new_eq(args[0], args[1]);
      break;
    case 1:
      meaning = f_n(F::AND, fs);
      ret = sat->new_conj(args);
      break;
    case 2:
      meaning = f_n(F::OR, fs);
      ret = sat->new_disj(args);
      break;
    case 3:
      meaning = f_n(F::AMO, fs);
      ret = sat->new_at_most_one(args);
      break;
    default:
      meaning = f_n(F::EXO, fs);
      ret = sat->new_exct_one(args);
      break;
    }
    queue_clean = false;
    tr(s + " -> " + lstr(ret));
    if (args.size() >= 4 && kind >= 3)
      cnt.inc("probe.card_ge4_args");
    if (kind <= 2)
      register_result(ret, meaning, O_N8_BOOL, kind == 0 ? "eq" : (kind == 1 ? "conj" : "disj"), nullptr);
    else
    {
      // one-directional: the literal, when true, forces the cardinality constraint
      if (ret == smt::FALSE_lit)
      { // no assignment satisfying the constraint may be excluded: the constraint itself must be impossible
        std::vector<z3::expr> q;
        {
          Suspend sp;
          q.push_back(z.zf(meaning));
        }
        if (z.check_with(q) == 1)
          viol(O_N8_BOOL, "N8", "N8.card.constant", "cardinality construct returned FALSE although " + f_text(meaning) + " is satisfiable");
      }
      else
      {
        // Required: ret -> constraint (that is what N3 evaluates). Allowed: a fresh literal may be fully
        // equivalent to the constraint, so soundness questions (N1/N2/N4) are asked against the strongest
        // permitted reading, ret <-> constraint; a shared literal only gets the implication.
        if (!known(ret))
        {
          reg(variable(ret));
          facts.push_back(f_n(F::IMP, {f_lit(ret), meaning}));
          z.add(f_n(F::IFF, {f_lit(ret), meaning}));
        }
        else
        {
          // "when true, it excludes no assignment that satisfies the constraint": a literal handed out for one cardinality
          // constraint and now handed out again for another one forces both when true, so the two constraints have to
          // agree on every assignment the rest of the network allows
          for (auto &old : card_meanings[variable(ret)])
            if (old.first == sign(ret) && variable(ret) != smt::FALSE_var) // (the constants are not "handed out")
            {
              std::vector<z3::expr> q;
              {
                Suspend sp;
                q.push_back((z.zf(old.second) && !z.zf(meaning)) || (!z.zf(old.second) && z.zf(meaning)));
              }
              cnt.inc("n8.card_shared_checks");
              if (z.check_with(q) == 1)
                viol(O_N8_BOOL, "N8", "N8.card.shared_literal_strengthened", "the literal " + lstr(ret) + " was returned for " + f_text(old.second) + " and is returned again for " + f_text(meaning) + ": when true it forces both, hence excludes assignments that satisfy one of them");
            }
          add_fact(f_n(F::IMP, {f_lit(ret), meaning}));
        }
        card_meanings[variable(ret)].push_back({sign(ret), meaning});
      }
    }
    Construct c;
    c.kind = kind;
    c.args = (kind == 0 ? args : distinct);
    c.ret = ret;
    c.formula = meaning;
    constructs.push_back(c);
    after_op(false, true, {}, "construct");
    return ret;
  }

  // the planner-side idiom for object variables whose exactly-one is not enforced by the theory:
  // post the exactly-one over the value literals through the public API
  void Run::post_exactly_one(const std::vector<lit> &ls)
  {
    lit r = make_construct(4, ls);
    if (dead || stop)
      return;
    add_fact(f_n(F::OR, {f_lit(r)}));
    bool ok = sat->new_clause({r});
    queue_clean = false;
    tr(std::string("post exactly-one ") + lstr(r) + " -> " + (ok ? "true" : "false"));
    after_op(true, ok, {}, "clause");
  }

  void Run::op_lrel(const Op &op)
  {
    if (!lra || lra_defs.empty() || !sat->root_level())
    {
      cnt.inc("skipped.lrel");
      return;
    }
    size_t pos = 1;
    int rel = static_cast<int>((op.arg(0) % 5 + 5) % 5);
    LinR l = parse_lin(op, pos, lra_usable());
    LinR r = parse_lin(op, pos, lra_usable());
    LinR e = l.minus(r);
    FP meaning = f_atom(LRA, e, rel);
    ++epoch;
    smt::lin ll = l.to_lin(), rl = r.to_lin();
    lit ret;
    auto on_fresh_atom = [this](FP m)
    { return [this, m](smt::var v)
      { lra_atoms[v] = m; }; };
    if (rel == EQ)
    { // new_eq = conj(geq, leq): request the components first so that they are known literals
      lit g = lra->new_geq(ll, rl);
      FP mg = f_atom(LRA, e, GEQ);
      register_result(g, mg, O_N8_LRA, "lra.geq", on_fresh_atom(mg));
      lit q = lra->new_leq(ll, rl);
      FP ml = f_atom(LRA, e, LEQ);
      register_result(q, ml, O_N8_LRA, "lra.leq", on_fresh_atom(ml));
      smt::var pr = probe();
      ret = lra->new_eq(ll, rl);
      if (!fresh_between(pr, ret).empty())
      {
        lra_hidden = true;
        cnt.inc("lra_hidden");
      }
      register_result(ret, meaning, O_N8_LRA, "lra.eq", nullptr);
    }
    else
    {
      smt::var pr = probe();
      switch (rel)
      {
      case LT:
        ret = lra->new_lt(ll, rl);
        break;
      case LEQ:
        ret = lra->new_leq(ll, rl);
        break;
      case GEQ:
        ret = lra->new_geq(ll, rl);
        break;
      default:
        ret = lra->new_gt(ll, rl);
        break;
      }
      if (!fresh_between(pr, ret).empty())
      {
        lra_hidden = true;
        cnt.inc("lra_hidden");
      }
      register_result(ret, meaning, O_N8_LRA, "lra.rel", on_fresh_atom(meaning));
    }
    queue_clean = false;
    cnt.inc(std::string("lrel.") + rel_name(rel));
    tr(std::string("lrel ") + f_text(meaning) + " -> " + lstr(ret));
    after_op(false, true, {}, "lrel");
  }

  // Normal form of a difference relation e rel 0: throws_expected, or a list of edges (to - from <= dist)
  // whose conjunction is the relation. Derived from the intended meaning only.
  static bool dl_normal(int th, const LinR &e, int rel, std::vector<DLEdge> &edges, bool &constant, bool &cval)
  {
    edges.clear();
    constant = false;
    if (e.t.size() > 2)
      return false;
    if (e.t.empty())
    {
      constant = true;
      int s = sgn(e.k);
      cval = rel == LT ? s < 0 : rel == LEQ ? s <= 0 : rel == EQ ? s == 0 : rel == GEQ ? s >= 0 : s > 0;
      return true;
    }
    auto it = e.t.begin();
    int v0 = it->first;
    mpq_class c0 = it->second;
    int v1 = 0;
    if (e.t.size() == 2)
    {
      ++it;
      v1 = it->first;
      if (it->second / c0 != -1)
        return false;
    }
    mpq_class k = e.k / c0; // v0 - v1 + k  rel'  0
    int r = rel;
    if (sgn(c0) < 0)
      r = 4 - rel; // flip
    if (th == IDL && k.get_den() != 1)
      return false;
    auto strict = [&](const mpq_class &d)
    { return th == IDL ? Qx(d - 1) : Qx(d, -1); };
    // v0 - v1 <= -k : edge from v1 to v0 ; v0 - v1 >= -k : v1 - v0 <= k : edge from v0 to v1
    if (r == LEQ || r == EQ)
      edges.push_back({th, v1, v0, Qx(-k)});
    if (r == LT)
      edges.push_back({th, v1, v0, strict(-k)});
    if (r == GEQ || r == EQ)
      edges.push_back({th, v0, v1, Qx(k)});
    if (r == GT)
      edges.push_back({th, v0, v1, strict(k)});
    return true;
  }


  static FP edge_atom(const DLEdge &ed)
  {
    LinR ee;
    ee.add(ed.to, 1);
    ee.add(ed.from, -1);
    ee.k = -ed.dist.r;
    return f_atom(ed.th, ee, ed.dist.e < 0 ? LT : LEQ);
  }

  // Two hidden distance literals were created by one API call; find out which carries which edge by a
  // legal experiment on the network itself (assume one at root, read the distance, pop). On any doubt
  // the answer is "unknown" and exactness checks are switched off for the run.
  bool Run::identify_pair(int th, const std::vector<smt::var> &inner, std::vector<DLEdge> &edges)
  {
    if (dead || !sat->root_level() || !queue_clean)
      return false;
    for (auto v : inner)
      if (sat->value(v) != smt::Undefined)
        return false;
    if (!sat->assume(lit(inner[0])))
    {
      dead = true;
      return false;
    }
    if (sat->decision_level() != 1)
      return false;
    bool m0 = cmp(net_dist(th, edges[0].from, edges[0].to), edges[0].dist) <= 0;
    bool m1 = cmp(net_dist(th, edges[1].from, edges[1].to), edges[1].dist) <= 0;
    sat->pop();
    cnt.inc("probe.identify_experiments");
    if (m0 && !m1)
      return true;
    if (m1 && !m0)
    {
      std::swap(edges[0], edges[1]);
      return true;
    }
    return false;
  }

  static smt::inf_rational to_inf(const Qx &q) { return smt::inf_rational(to_rat(q.r), to_rat(q.e)); }

  void Run::op_dl_rel(const Op &op, int th)
  {
    int nv = th == IDL ? n_idl : n_rdl;
    if ((th == IDL ? !idl : !rdl) || nv < 2 || !sat->root_level())
    {
      cnt.inc("skipped.dlrel");
      return;
    }
    ensure_clean();
    if (dead)
      return;
    size_t pos = 1;
    int rel = static_cast<int>((op.arg(0) % 5 + 5) % 5);
    LinR l = parse_lin(op, pos, dl_usable(th));
    LinR r = parse_lin(op, pos, dl_usable(th));
    LinR e = l.minus(r);
    FP meaning = f_atom(th, e, rel);
    std::vector<DLEdge> edges;
    bool constant, cval = false;
    bool valid = dl_normal(th, e, rel, edges, constant, cval);
    ++epoch;
    smt::lin ll = l.to_lin(), rl = r.to_lin();
    smt::var pr = probe();
    lit ret;
    bool threw = false;
    try
    {
      if (th == IDL)
        switch (rel)
        {
        case LT:
          ret = idl->new_lt(ll, rl);
          break;
        case LEQ:
          ret = idl->new_leq(ll, rl);
          break;
        case EQ:
          ret = idl->new_eq(ll, rl);
          break;
        case GEQ:
          ret = idl->new_geq(ll, rl);
          break;
        default:
          ret = idl->new_gt(ll, rl);
          break;
        }
      else
        switch (rel)
        {
        case LT:
          ret = rdl->new_lt(ll, rl);
          break;
        case LEQ:
          ret = rdl->new_leq(ll, rl);
          break;
        case EQ:
          ret = rdl->new_eq(ll, rl);
          break;
        case GEQ:
          ret = rdl->new_geq(ll, rl);
          break;
        default:
          ret = rdl->new_gt(ll, rl);
          break;
        }
    }
    catch (const std::invalid_argument &)
    {
      threw = true;
    }
    std::string form = std::string(th == IDL ? "idl." : "rdl.") + rel_name(rel) + ".v" + std::to_string(e.t.size()) + (e.t.empty() ? "" : (sgn(e.t.begin()->second) < 0 ? ".neg" : ".pos"));
    cnt.inc("dlrel." + form);
    tr("dlrel " + f_text(meaning) + (threw ? " -> invalid_argument" : " -> " + lstr(ret)));
    if (threw)
    {
      cnt.inc("dlrel.threw");
      if (valid)
        viol(O_N8_DL, "N8", "N8.dl.rejected", "a valid difference relation was rejected with invalid_argument: " + f_text(meaning));
      return;
    }
    if (!valid)
    { // accepted although not a difference constraint we can map to edges: keep only the semantic oracles
      dl_hidden[th] = true;
      cnt.inc("dl_hidden.unexpected_accept");
      register_result(ret, meaning, O_N8_DL, "dl.rel", nullptr);
      queue_clean = false;
      after_op(false, true, {}, "dlrel");
      return;
    }
    std::vector<smt::var> inner = fresh_between(pr, ret);
    bool fresh = variable(ret) != smt::FALSE_var && !known(ret);
    register_result(ret, meaning, O_N8_DL, "dl.rel", nullptr);
    if (fresh)
    {
      if (edges.size() == 1 && inner.empty())
      {
        dl_edges[variable(ret)] = edges[0];
        if (!sign(ret))
        {
          dl_hidden[th] = true;
          cnt.inc("dl_hidden.neg_fresh");
        }
      }
      else if (edges.size() == 2 && inner.size() == 2 && identify_pair(th, inner, edges))
      { // conj of two internal distance literals: each gets its own edge (identified by experiment)
        for (size_t i = 0; i < 2; ++i)
        {
          reg(inner[i]);
          dl_edges[inner[i]] = edges[i];
          add_fact(f_n(F::IFF, {f_lit(lit(inner[i])), edge_atom(edges[i])}));
        }
        add_fact(f_n(F::IFF, {f_lit(ret), f_n(F::AND, {f_lit(lit(inner[0])), f_lit(lit(inner[1]))})}));
        cnt.inc("probe.dl_eq_components_identified");
      }
      else
      {
        dl_hidden[th] = true;
        cnt.inc("dl_hidden.unexpected_structure");
      }
    }
    else if (!inner.empty())
    {
      dl_hidden[th] = true;
      cnt.inc("dl_hidden.unexpected_structure");
    }
    queue_clean = false;
    after_op(false, true, {}, "dlrel");
  }

  void Run::op_dl_dist(const Op &op, int th, bool two)
  {
    int nv = th == IDL ? n_idl : n_rdl;
    if ((th == IDL ? !idl : !rdl) || nv < 2 || !sat->root_level())
    {
      cnt.inc("skipped.dldist");
      return;
    }
    ensure_clean();
    if (dead)
      return;
    int from = static_cast<int>(std::abs(op.arg(0)) % nv), to = static_cast<int>(std::abs(op.arg(1)) % nv);
    if (from == to)
      to = (to + 1) % nv;
    auto mkq = [&](long n, long d, long strict)
    {
      if (th == IDL)
        return Qx(mpq_class(n % 21));
      mpq_class q(n % 41, std::abs(d) % 4 + 1);
      q.canonicalize();
      return Qx(q, (strict & 1) ? -1 : 0);
    };
    ++epoch;
    smt::var pr = probe();
    lit ret;
    FP meaning;
    std::vector<DLEdge> edges;
    if (!two)
    {
      Qx d = mkq(op.arg(2), op.arg(3), op.arg(4));
      edges.push_back({th, from, to, d});
      meaning = edge_atom(edges[0]);
      ret = th == IDL ? idl->new_distance(from, to, d.r.get_num().get_si()) : rdl->new_distance(from, to, to_inf(d));
    }
    else
    {
      Qx mn = mkq(op.arg(2), op.arg(3), 0), mx = mkq(op.arg(4), op.arg(5), 0);
      // min <= to - from <= max : components created in this order by the API
      edges.push_back({th, to, from, neg(mn)});
      edges.push_back({th, from, to, mx});
      meaning = f_n(F::AND, {edge_atom(edges[0]), edge_atom(edges[1])});
      ret = th == IDL ? idl->new_distance(from, to, mn.r.get_num().get_si(), mx.r.get_num().get_si()) : rdl->new_distance(from, to, to_inf(mn), to_inf(mx));
    }
    cnt.inc(std::string(th == IDL ? "idl" : "rdl") + (two ? ".dist2" : ".dist"));
    tr("dldist " + f_text(meaning) + " -> " + lstr(ret));
    std::vector<smt::var> inner = fresh_between(pr, ret);
    bool fresh = variable(ret) != smt::FALSE_var && !known(ret);
    register_result(ret, meaning, O_N8_DL, "dl.dist", nullptr);
    if (fresh && !two && inner.empty() && sign(ret))
    {
      dl_edges[variable(ret)] = edges[0];
    }
    else if (fresh && two && inner.size() == 2 && identify_pair(th, inner, edges))
    {
      for (size_t i = 0; i < 2; ++i)
      {
        reg(inner[i]);
        dl_edges[inner[i]] = edges[i];
        add_fact(f_n(F::IFF, {f_lit(lit(inner[i])), edge_atom(edges[i])}));
      }
      add_fact(f_n(F::IFF, {f_lit(ret), f_n(F::AND, {f_lit(lit(inner[0])), f_lit(lit(inner[1]))})}));
      cnt.inc("probe.dl_dist2_components_identified");
    }
    else if (fresh && two && inner.empty())
    {
      // one component was decided at root and folded away: the result is the other component itself.
      // Which one is decided by the reference distances, not by the code.
      dl_hidden[th] = true; // conservative: we do not try to guess, exactness checks off for this run
      cnt.inc("dl_hidden.dist2_folded");
    }
    else if (fresh || !inner.empty())
    {
      dl_hidden[th] = true;
      cnt.inc("dl_hidden.unexpected_structure");
    }
    queue_clean = false;
    after_op(false, true, {}, "dldist");
  }
} // namespace net
