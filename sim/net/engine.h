// NET engine: the constraint network (sat_core + LRA/IDL/RDL/OV theories, all real code) driven through
// a generated history of API calls, with a reference model and oracles N1..N9 (DESIGN.md 3.1).
#pragma once
#include "ref.h"
#include "zref.h"
#include "../core/common.h"
#include "../core/layout.h"
#include "sat_core.h"
#include "lra_theory.h"
#include "idl_theory.h"
#include "rdl_theory.h"
#include "ov_theory.h"
#include "verif_hooks.h"
#include <functional>
#include <set>
#include <stdexcept>

namespace net
{
  using sim::Op;
  using smt::lit;

  // oracle bits
  enum : unsigned
  {
    O_N1 = 1u << 0,     // no unjustified value
    O_N2 = 1u << 1,     // false means unsat
    O_N3 = 1u << 2,     // complete assignment is a model / assigned constructs mean their formula
    O_N4 = 1u << 3,     // recorded clauses entailed (all)
    O_N4_LRA = 1u << 4, // ... those mentioning LRA literals
    O_N4_DL = 1u << 5,  // ... those mentioning DL literals
    O_N5_DL = 1u << 6,  // DL distances == function of assigned literals (Floyd-Warshall)
    O_N5_OV = 1u << 7,  // OV domain == values whose literal is not False
    O_N5_LRA = 1u << 8, // LRA bounds restored exactly (snapshot equality)
    O_N5_BOOL = 1u << 9, // literal values restored exactly (snapshot equality)
    O_N6 = 1u << 10,    // LRA model and bounds
    O_N7 = 1u << 11,    // DL completeness / negative cycle / expression queries
    O_N8_BOOL = 1u << 12,
    O_N8_LRA = 1u << 13,
    O_N8_DL = 1u << 14,
    O_N8_OV = 1u << 15,
    O_X = 1u << 16, // unexpected exception from the API
    O_N11 = 1u << 19,  // unit propagation reached its fixpoint: no clause ever added or recorded is falsified or unit with its last literal still unassigned
    O_N10 = 1u << 18,  // a theory keeps listening to each of its literals that is not fixed at root level (structural: sat_core's binding map)
    O_N9_DL = 1u << 17 // DL: every hop of the stored shortest-path trees is an enforced constraint of exactly that weight (what explanations walk)
  };

  struct Violation
  {
    unsigned bit = 0;
    std::string oracle, cls, msg;
    size_t op_index = 0;
  };

  struct DLEdge
  {
    int th, from, to;
    Qx dist;
  };
  struct Construct
  {
    int kind; // 0 eq 1 conj 2 disj 3 amo 4 exo
    std::vector<lit> args;
    lit ret;
    FP formula; // meaning of the arguments
  };
  struct OVar
  {
    std::vector<std::pair<int, lit>> vals; // value id -> literal
    bool enforce = false;
  };
  struct Guard
  { // a literal owned by a simulated client of the LRA theory: while it is true the client has imposed `atom` directly (set_lb/set_ub)
    smt::var g;
    bool defined = false;
    int x = 0, kind = 0; // 0 lower, 1 upper, 2 both
    Qx val;
    FP atom;
  };
  struct PoolVal : public smt::var_value
  {
    int id;
  };

  class Run
  {
  public:
    Run(uint64_t seed, unsigned enabled, bool verbose);
    ~Run();
    void setup(long dl_size, long th_mask, long th_order);
    void exec(const std::vector<Op> &ops);

    // results
    std::vector<Violation> violations; // only enabled oracles; first one ends the run
    std::vector<Violation> others;     // hits of oracles not enabled for this property (reported, not failing)
    sim::EventLog log;
    sim::Counters cnt;
    bool discard = false;
    std::string discard_why;
    bool inconclusive = false;
    size_t ops_done = 0;
    std::vector<std::string> trace;

  private:
    // ---- system under test (heap allocated so that addresses come from the layout arena) ----
    smt::sat_core *sat = nullptr;
    smt::lra_theory *lra = nullptr;
    smt::idl_theory *idl = nullptr;
    smt::rdl_theory *rdl = nullptr;
    smt::ov_theory *ov = nullptr;

    // ---- reference ----
    ZRef z;
    std::vector<smt::var> blist;     // known Bool variables (index 0 = FALSE_var), registration order
    std::vector<smt::var> tlist;     // the fresh variables that creation calls returned, creation order
    std::map<smt::var, std::vector<std::pair<bool, FP>>> card_meanings; // cardinality constraints each literal was returned for
    std::set<smt::var> bknown;
    std::map<smt::var, FP> lra_atoms;       // LRA literal -> atom
    std::map<smt::var, DLEdge> dl_edges;    // DL literal -> edge (to - from <= dist)
    std::vector<std::pair<bool, LinR>> lra_defs; // per LRA var: derived?, definition
    std::set<size_t> lra_internal;               // slack variables created inside the theory (meaning unknown here)
    int n_idl = 1, n_rdl = 1;                // including origin 0
    std::vector<OVar> ovars;
    std::vector<Guard> guards;
    std::vector<PoolVal *> pool;
    std::vector<Construct> constructs;
    std::vector<FP> facts;
    bool dl_hidden[3] = {false, false, false}; // hidden DL literals may exist -> exactness checks off
    bool lra_hidden = false;
    bool dead = false; // root-level inconsistency reported: the history ends
    bool queue_clean = true;
    size_t epoch = 0; // bumped by every creation op (snapshots are comparable only within one epoch)
    std::vector<std::vector<lit>> pending_clauses;
    std::vector<std::pair<std::string, std::string>> snaps; // per level: (assigned key, observables)
    size_t cur_op = 0;
    unsigned enabled;
    bool verbose;
    bool stop = false;
    sim::Rng rng;
    int next_nogood_expected = 0;
    std::vector<lit> next_nogood;

    static Run *self;
    static void hook(const smt::sat_core &, const std::vector<lit> &);
    static void hook_new_clause(const smt::sat_core &, const std::vector<lit> &);
    std::vector<std::vector<lit>> all_clauses; // every clause handed to new_clause (also from inside the constructs and the theories) or recorded
    void check_fixpoint();

    // ---- helpers ----
    void tr(const std::string &s)
    {
      log.ev(s);
      if (verbose)
        trace.push_back(s);
    }
    void viol(unsigned bit, const std::string &oracle, const std::string &cls, const std::string &msg);
    void add_fact(const FP &f)
    {
      facts.push_back(f);
      z.add(f);
    }
    lit ref_lit(long s, long i) const
    {
      size_t k = static_cast<size_t>(i < 0 ? -i : i);
      // references >= 1000 count back from the most recently created variable (so that a generator can relate what it just made)
      // references >= 2000 address the variables that creation calls returned (constraint literals), in creation order
      if (k >= 2000 && !tlist.empty())
        return lit(tlist[(k - 2000) % tlist.size()], (s & 1) != 0);
      k = k >= 1000 ? blist.size() - 1 - (k - 1000) % blist.size() : k % blist.size();
      return lit(blist[k], (s & 1) != 0);
    }
    bool known(lit l) const { return bknown.count(variable(l)) != 0; }
    void reg(smt::var v)
    {
      if (bknown.insert(v).second)
        blist.push_back(v);
    }
    std::string lstr(lit l) const { return std::string(sign(l) ? "" : "!") + "b" + std::to_string(variable(l)); }
    std::string vstr(smt::lbool v) const { return v == smt::True ? "T" : (v == smt::False ? "F" : "U"); }
    smt::var probe();
    std::vector<smt::var> fresh_between(smt::var probe_id, lit ret);
    LinR parse_lin(const Op &op, size_t &pos, const std::vector<int> &usable);
    std::vector<int> lra_usable() const;
    std::vector<int> dl_usable(int th) const;
    void lra_sync(smt::var v);
    std::vector<lit> parse_lits(const Op &op, size_t &pos);
    std::vector<z3::expr> zdecisions();

    // ---- ops ----
    void exec_op(const Op &op);
    void op_bool_construct(const Op &op, int kind);
    lit make_construct(int kind, const std::vector<lit> &args);
    void post_exactly_one(const std::vector<lit> &ls);
    void op_lrel(const Op &op);
    void op_dl_rel(const Op &op, int th);
    void op_dl_dist(const Op &op, int th, bool two);
    void op_dl_query(const Op &op, int th);
    void op_ovar(const Op &op);
    void op_ovar2(const Op &op);
    void op_oeq(const Op &op);
    void op_assume(lit p);
    void op_cbound(const Op &op);
    void op_sweep(const Op &op);
    void ensure_clean();
    bool identify_pair(int th, const std::vector<smt::var> &inner, std::vector<DLEdge> &edges);
    void register_result(lit ret, const FP &meaning, unsigned n8bit, const char *what, std::function<void(smt::var)> on_fresh);

    // ---- oracles ----
    void after_op(bool result_known, bool result, const std::vector<z3::expr> &n2_premise, const char *opname);
    void check_n1();
    void check_n3();
    void check_pending_clauses();
    void check_dl(int th);
    void check_dl_tree(int th);
    void check_listening();
    void check_ov();
    void check_lra();
    void check_snapshots(size_t level_before);
    void take_snapshot();
    std::pair<std::string, std::string> observe();
    int eval(const FP &f, bool &lra_ok);
    Qx lra_value(int v) { return from(lra->value(static_cast<smt::var>(v))); }
    Qx eval_lin_lra(const LinR &e);
    void fw(int th, std::vector<std::vector<Qx>> &d, bool &neg_cycle);
    Qx net_dist(int th, int i, int j);
  };
} // namespace net
