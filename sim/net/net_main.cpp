// NET engine worker: "run <id> seed=N prop=Cxx" generates and executes one history;
// "exec <id> prop=Cxx seed=N dl_size=.. th_mask=.. th_order=.. layout_random=.. body=K" + K op lines
// executes an explicit (e.g. minimised) history. See ../core/worker.h for the framing.
#include "engine.h"
#include "gen.h"
#include "../core/worker.h"

using namespace net;

static unsigned mask_for(const std::string &prop)
{
  if (prop == "C07")
    return O_N1 | O_N2 | O_N3 | O_N4 | O_N10 | O_N11 | O_X;
  if (prop == "C08")
    return O_N5_LRA | O_N5_DL | O_N5_OV | O_N1 | O_N9_DL | O_N10 | O_N11 | O_X;
  if (prop == "C09")
    return O_N6 | O_N4_LRA | O_N2 | O_N10 | O_X;
  if (prop == "C10")
    return O_N5_DL | O_N7 | O_N4_DL | O_N2 | O_N9_DL | O_N10 | O_X;
  if (prop == "C11")
    return O_N8_LRA | O_N1 | O_N2 | O_N3 | O_N6 | O_X;
  if (prop == "C12")
    return O_N8_DL | O_N7 | O_N1 | O_N2 | O_N3 | O_X;
  if (prop == "C13")
    return O_N8_BOOL | O_N3 | O_N2 | O_N1 | O_X;
  if (prop == "C14")
    return O_N8_OV | O_N5_OV | O_N3 | O_N2 | O_N1 | O_X;
  if (prop == "ALL")
    return 0xffffffffu;
  return O_X; // C18: only crashes / exceptions
}

static std::string one_line(std::string s)
{
  for (auto &c : s)
    if (c == '\n' || c == '\r')
      c = ' ';
  return s;
}

static void run_cmd(const sim::Cmd &c, sim::Out &out)
{
  const std::string prop = c.str("prop", "C07");
  const std::string genprop = c.str("profile", prop);
  const uint64_t seed = c.u64("seed", 1);
  const bool verbose = c.num("verbose", 0) != 0;
  RunParams rp;
  std::vector<Op> ops;
  if (c.verb == "run" || c.verb == "gen")
    ops = generate(seed, genprop == "C18" ? std::string("C08") : genprop, rp, c.str("world", ""));
  else
  {
    rp.dl_size = c.num("dl_size", 16);
    rp.th_mask = c.num("th_mask", 15);
    rp.th_order = c.num("th_order", 0);
    rp.layout_random = c.num("layout_random", 1) != 0;
    for (auto &l : c.body)
    {
      Op op;
      if (Op::parse(l, op))
        ops.push_back(op);
    }
  }
  out.line("P dl_size=" + std::to_string(rp.dl_size) + " th_mask=" + std::to_string(rp.th_mask) + " th_order=" + std::to_string(rp.th_order) + " layout_random=" + std::to_string(rp.layout_random ? 1 : 0) + " seed=" + std::to_string(seed));
  if (c.verb == "gen" || c.num("emit_ops", 0))
    for (auto &op : ops)
      out.line("O " + op.text());
  if (c.verb == "gen")
  {
    out.line("R status=OK hash=0 ops=" + std::to_string(ops.size()) + " done=0 nontrivial=0 sig=0");
    return;
  }
  uint64_t sig = sim::fnv64(std::to_string(rp.dl_size) + "/" + std::to_string(rp.th_mask) + "/" + std::to_string(rp.th_order));
  for (auto &op : ops)
    sig = sim::fnv64(op.text(), sig);
  Run run(seed, mask_for(prop), verbose);
  out.flush();
  { // what fresh heap blocks hold is part of the simulated environment too: zero, 0xff, 0x5a or whatever was there before
    static const int fills[] = {-1, 0x00, 0xff, 0x5a};
    sim::layout::set_poison(static_cast<int>(c.num("poison", fills[sim::Rng(seed).derive("poison").below(4)])));
  }
  sim::layout::start(sim::Rng(seed).derive("layout").next(), rp.layout_random, 0);
  run.setup(rp.dl_size, rp.th_mask, rp.th_order);
  run.exec(ops);
  sim::layout::stop();
  std::string status = "OK";
  if (!run.violations.empty())
    status = "VIOL";
  else if (run.discard)
    status = "DISCARD";
  else if (run.inconclusive)
    status = "INCONCLUSIVE";
  auto &cc = run.cnt.c;
  bool nontrivial = (cc["recorded_clauses"] > 0 || cc["false_verdicts"] > 0 || cc["probe.assume_backjumped"] > 0) && (cc["pop"] + cc["popto"] + cc["next"] + cc["check"] + cc["sweep"] > 0);
  if (verbose)
    for (auto &t : run.trace)
      out.line("T " + one_line(t));
  for (auto &v : run.violations)
    out.line("V oracle=" + v.oracle + " class=" + v.cls + " op=" + std::to_string(v.op_index) + " msg=" + one_line(v.msg));
  for (auto &v : run.others)
    out.line("N oracle=" + v.oracle + " class=" + v.cls + " op=" + std::to_string(v.op_index) + " msg=" + one_line(v.msg));
  for (auto &p : cc)
    out.line("C " + p.first + " " + std::to_string(p.second));
  out.line("C layout_allocations " + std::to_string(sim::layout::allocations()));
  out.line("R status=" + status + " hash=" + sim::hex64(run.log.hash()) + " ops=" + std::to_string(ops.size()) + " done=" + std::to_string(run.ops_done) + " nontrivial=" + (nontrivial ? "1" : "0") + " sig=" + sim::hex64(sig));
}

int main(int argc, char **argv)
{
  return sim::worker_main(argc, argv, run_cmd, 20000);
}
