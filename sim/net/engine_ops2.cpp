#include "engine.h"

namespace net
{
  using sim::layout::Suspend;

  void Run::op_ovar(const Op &op)
  {
    if (!ov || !sat->root_level())
    {
      cnt.inc("skipped.ovar");
      return;
    }
    bool enforce = op.arg(0) & 1;
    long n = std::abs(op.arg(1)) % 5 + 1;
    std::vector<smt::var_value *> items;
    std::vector<int> ids;
    for (long i = 0; i < n; ++i)
    {
      int id = static_cast<int>(std::abs(op.arg(2 + i)) % pool.size());
      if (std::find(ids.begin(), ids.end(), id) == ids.end())
      {
        ids.push_back(id);
        items.push_back(pool[id]);
      }
      else if (op.arg(7) & 1)
      { // the domain is given as a list: the same value may be listed twice (a union of enums reaching one enum twice does that)
        items.push_back(pool[id]);
        cnt.inc("ovar.duplicate_value_listed");
      }
    }
    ++epoch;
    smt::var v = ov->new_var(items, enforce);
    OVar o;
    o.enforce = enforce || items.size() == 1;
    std::vector<FP> ls;
    for (size_t i = 0; i < ids.size(); ++i)
    {
      lit l = ov->allows(v, *pool[ids[i]]);
      if (variable(l) != smt::FALSE_var)
        reg(variable(l));
      o.vals.push_back({ids[i], l});
      ls.push_back(f_lit(l));
    }
    if (o.enforce)
      add_fact(f_n(F::EXO, ls));
    // a value outside the domain is never allowed
    for (auto *p : pool)
      if (std::find(ids.begin(), ids.end(), p->id) == ids.end())
        if (ov->allows(v, *p) != smt::FALSE_lit)
          viol(O_N8_OV, "N8", "N8.ov.allows_outside", "allows() returned a non-false literal for a value outside the domain");
    ovars.push_back(o);
    queue_clean = false;
    cnt.inc(std::string("ovar.size") + std::to_string(ids.size()) + (enforce ? ".enforced" : ".free"));
    tr("ovar e" + std::to_string(v) + " size=" + std::to_string(ids.size()));
    after_op(false, true, {}, "ovar");
    if (!o.enforce && !dead && !stop)
    {
      std::vector<lit> ls;
      for (auto &p : o.vals)
        ls.push_back(p.second);
      post_exactly_one(ls);
    }
  }

  void Run::op_ovar2(const Op &op)
  {
    if (!ov || !sat->root_level())
    {
      cnt.inc("skipped.ovar");
      return;
    }
    long n = std::abs(op.arg(0)) % 4 + 1;
    std::vector<lit> ls;
    std::vector<smt::var_value *> vals;
    OVar o;
    for (long i = 0; i < n; ++i)
    {
      lit l = ref_lit(op.arg(1 + 3 * i), op.arg(2 + 3 * i));
      int id = static_cast<int>(std::abs(op.arg(3 + 3 * i)) % pool.size());
      bool dup = false;
      for (auto &p : o.vals)
        if (p.first == id || variable(p.second) == variable(l))
          dup = true; // one literal per value, one value per literal: otherwise "exactly one value" is meaningless
      if (dup)
        continue;
      ls.push_back(l);
      vals.push_back(pool[id]);
      o.vals.push_back({id, l});
    }
    ++epoch;
    smt::var v = ov->new_var(ls, vals);
    o.enforce = false;
    ovars.push_back(o);
    tr("ovar2 e" + std::to_string(v) + " size=" + std::to_string(ls.size()));
    cnt.inc("ovar2");
    after_op(false, true, {}, "ovar2");
    if (!dead && !stop)
      post_exactly_one(ls);
  }

  void Run::op_oeq(const Op &op)
  {
    if (!ov || ovars.empty() || !sat->root_level())
    {
      cnt.inc("skipped.oeq");
      return;
    }
    ensure_clean(); // ov_theory::new_eq takes the success of its own clauses for granted: only on a propagated, consistent root
    if (dead || stop)
      return;
    size_t a = static_cast<size_t>(std::abs(op.arg(0))) % ovars.size(), b = static_cast<size_t>(std::abs(op.arg(1))) % ovars.size();
    ++epoch;
    lit ret = ov->new_eq(a, b);
    queue_clean = false;
    // meaning: if both variables take exactly one value, the literal says "same value"
    std::vector<FP> la, lb, same;
    for (auto &p : ovars[a].vals)
      la.push_back(f_lit(p.second));
    for (auto &p : ovars[b].vals)
      lb.push_back(f_lit(p.second));
    bool disjoint = true;
    for (auto &p : ovars[a].vals)
      for (auto &q : ovars[b].vals)
        if (p.first == q.first)
        {
          same.push_back(f_n(F::AND, {f_lit(p.second), f_lit(q.second)}));
          disjoint = false;
        }
    FP prem = f_n(F::AND, {f_n(F::EXO, la), f_n(F::EXO, lb)});
    tr("oeq e" + std::to_string(a) + " e" + std::to_string(b) + " -> " + lstr(ret));
    cnt.inc(a == b ? "oeq.same_var" : (disjoint ? "oeq.disjoint" : "oeq.overlap"));
    if (disjoint && ret != smt::FALSE_lit && a != b)
    { // "variables with disjoint domains are never equal"
      std::vector<z3::expr> q;
      {
        Suspend s;
        q.push_back(z.zl(ret));
      }
      if (z.check_with(q) == 1 && !known(ret))
        viol(O_N8_OV, "N8", "N8.ov.disjoint", "equality literal of variables with disjoint domains is not false");
    }
    FP meaning = f_n(F::OR, same);
    if (variable(ret) == smt::FALSE_var || known(ret))
    {
      std::vector<z3::expr> q;
      {
        Suspend s;
        q.push_back(z.zf(prem));
        q.push_back(z.zl(ret) != z.zf(meaning));
      }
      cnt.inc("n8.ov_shared_or_constant");
      if (z.check_with(q) == 1)
        viol(O_N8_OV, "N8", "N8.ov.eq", "equality literal " + lstr(ret) + " is not equivalent to 'same value' for e" + std::to_string(a) + ", e" + std::to_string(b));
    }
    else
    {
      reg(variable(ret));
      add_fact(f_n(F::IMP, {prem, f_n(F::IFF, {f_lit(ret), meaning})}));
      Construct c;
      c.kind = 5;
      c.ret = ret;
      c.formula = f_n(F::IMP, {prem, f_n(F::IFF, {f_lit(ret), meaning})});
      for (auto &p : ovars[a].vals)
        c.args.push_back(p.second);
      for (auto &p : ovars[b].vals)
        c.args.push_back(p.second);
      constructs.push_back(c);
    }
    after_op(false, true, {}, "oeq");
  }

  void Run::op_assume(lit p)
  {
    ensure_clean();
    if (dead || stop)
      return;
    take_snapshot();
    std::vector<z3::expr> prem = zdecisions();
    {
      Suspend s;
      prem.push_back(z.zl(p));
    }
    size_t lvl = sat->decision_level();
    bool r = sat->assume(p);
    tr("assume " + lstr(p) + " -> " + (r ? "true" : "false") + " level=" + std::to_string(sat->decision_level()));
    cnt.inc("assume");
    if (r && sat->decision_level() <= lvl)
      cnt.inc("probe.assume_backjumped");
    if (r && sat->decision_level() + 1 < lvl)
      cnt.inc("probe.backjump_gt1");
    after_op(true, r, prem, "assume");
  }

  // A client of the LRA theory imposes a bound directly (the executor's protocol for delays and frozen values): it decides a
  // literal of its own, calls set_lb/set_ub/set with that literal as the reason and, if the theory reports a conflict, asks the
  // theory to backtrack, analyse and backjump. For the reference the client's claim is the permanent fact guard -> bound; the
  // guard is only ever made true here, and the bound lives exactly as long as the decision level the guard was decided at.
  void Run::op_cbound(const Op &op)
  {
    if (!lra || guards.empty() || lra_defs.empty())
    {
      cnt.inc("skipped.cbound");
      return;
    }
    ensure_clean();
    if (dead || stop)
      return;
    Guard &gd = guards[static_cast<size_t>(std::abs(op.arg(0))) % guards.size()];
    if (sat->value(gd.g) != smt::Undefined)
    {
      cnt.inc("skipped.cbound_guard_assigned");
      return;
    }
    if (!gd.defined)
    {
      std::vector<int> us = lra_usable();
      if (us.empty())
        return;
      const size_t xi = static_cast<size_t>(std::abs(op.arg(1)));
      gd.x = us[xi >= 1000 ? us.size() - 1 - (xi - 1000) % us.size() : xi % us.size()]; // >= 1000: counted back from the most recent variable
      gd.kind = static_cast<int>(std::abs(op.arg(2)) % 3);
      long den = std::abs(op.arg(4)) % 4 + 1;
      mpq_class q(op.arg(3), den);
      q.canonicalize();
      const long mode = std::abs(op.arg(6)) % 4; // 0,1: absolute; 2: around the current value; 3: around the opposite bound (conflicts and near misses)
      if (mode == 2)
        q += lra_value(gd.x).r;
      else if (mode == 3)
      {
        Qx opp = from(gd.kind == 1 ? lra->lb(static_cast<smt::var>(gd.x)) : lra->ub(static_cast<smt::var>(gd.x)));
        if (!opp.inf)
          q += opp.r;
      }
      if (q.get_num().fits_slong_p() == 0 || q.get_den().fits_slong_p() == 0 || abs(q.get_num()) > 1000000 || q.get_den() > 1000000)
        q = mpq_class(op.arg(3), den), q.canonicalize();
      int strict = gd.kind == 2 ? 0 : static_cast<int>(std::abs(op.arg(5)) % 2);
      gd.val = Qx(q, gd.kind == 0 ? strict : -strict);
      LinR e;
      e.add(gd.x, 1);
      e.k = -q;
      gd.atom = f_atom(LRA, e, gd.kind == 2 ? EQ : (gd.kind == 0 ? (strict ? GT : GEQ) : (strict ? LT : LEQ)));
      gd.defined = true;
      add_fact(f_n(F::IMP, {f_lit(lit(gd.g)), gd.atom}));
      cnt.inc("cbound.defined");
    }
    else
      cnt.inc("cbound.reimposed");
    const lit g(gd.g);
    const size_t lvl0 = sat->decision_level();
    take_snapshot();
    std::vector<z3::expr> prem = zdecisions();
    {
      Suspend s;
      prem.push_back(z.zl(g));
    }
    // deciding the guard and imposing the bound are one step for the oracles (in between the reference knows more than the theory)
    const bool r0 = sat->assume(g);
    cnt.inc("assume");
    if (!r0 || sat->value(g) != smt::True)
    {
      cnt.inc("cbound.guard_refuted");
      tr("cbound: assume " + lstr(g) + " -> " + (r0 ? "true" : "false") + " level=" + std::to_string(sat->decision_level()));
      after_op(true, r0, prem, "assume");
      return;
    }
    const smt::inf_rational v(to_rat(gd.val.r), to_rat(gd.val.e));
    const smt::var x = static_cast<smt::var>(gd.x);
    bool r = gd.kind == 0 ? lra->set_lb(x, v, g) : (gd.kind == 1 ? lra->set_ub(x, v, g) : lra->set(x, v, g));
    tr("cbound " + lstr(g) + " => " + f_text(gd.atom) + " -> " + (r ? "true" : "false"));
    bool r2;
    if (!r)
    { // the theory holds a conflict found outside propagation
      cnt.inc("cbound.conflict");
      r2 = lra->backtrack_analyze_and_backjump();
      if (r2 && sat->decision_level() + 1 < lvl0 + 1)
        cnt.inc("probe.cbound_backjump_gt1");
    }
    else
    {
      cnt.inc("cbound.accepted");
      r2 = sat->propagate();
    }
    queue_clean = true;
    tr(std::string("cbound follow-up -> ") + (r2 ? "true" : "false") + " level=" + std::to_string(sat->decision_level()));
    after_op(true, r2, prem, "cbound");
  }

  // exhaustive probe of a reified construct: every assignment of its (free) arguments and of the
  // returned literal is driven through assume; the local meaning is evaluated by after_op (N3).
  void Run::op_sweep(const Op &op)
  {
    if (constructs.empty())
      return;
    ensure_clean();
    if (dead || stop)
      return;
    const Construct c = constructs[static_cast<size_t>(std::abs(op.arg(0))) % constructs.size()];
    std::vector<lit> vars;
    for (auto &l : c.args)
    {
      lit pl(variable(l));
      if (variable(l) != smt::FALSE_var && std::find(vars.begin(), vars.end(), pl) == vars.end())
        vars.push_back(pl);
    }
    if (variable(c.ret) != smt::FALSE_var && std::find(vars.begin(), vars.end(), lit(variable(c.ret))) == vars.end())
      vars.push_back(lit(variable(c.ret)));
    if (vars.size() > 7)
      vars.resize(7);
    const size_t base = sat->decision_level();
    const unsigned start = static_cast<unsigned>(std::abs(op.arg(1)));
    cnt.inc("sweep");
    for (unsigned m0 = 0; m0 < (1u << vars.size()) && !stop && !dead; ++m0)
    {
      unsigned m = (m0 + start) % (1u << vars.size());
      for (size_t i = 0; i < vars.size() && !stop && !dead; ++i)
      {
        lit p = (m >> i) & 1 ? vars[i] : !vars[i];
        if (sat->value(p) != smt::Undefined)
          continue;
        size_t lvl = sat->decision_level();
        op_assume(p);
        if (dead || stop || sat->decision_level() <= lvl)
          break; // conflict: this assignment is refuted (N1/N2/N4 judged it)
      }
      cnt.inc("sweep.assignments");
      if (dead || stop)
        break;
      size_t lvl = sat->decision_level();
      while (sat->decision_level() > base)
        sat->pop();
      if (lvl > base)
        after_op(false, true, {}, "sweep-pop");
      if (sat->decision_level() < base)
        break; // a backjump went below the base level
    }
  }

  // bounds(lin), distance(lin,lin), equates(lin,lin) against the same function of the variable-level
  // distances reported by the network (C12; the distances themselves are judged by N5).
  void Run::op_dl_query(const Op &op, int th)
  {
    int nv = th == IDL ? n_idl : n_rdl;
    if ((th == IDL ? !idl : !rdl) || nv < 2 || dead)
      return;
    if (!queue_clean)
      return;
    size_t pos = 1;
    long kind = std::abs(op.arg(0)) % 3;
    LinR a = parse_lin(op, pos, dl_usable(th));
    LinR b = parse_lin(op, pos, dl_usable(th));
    if (th == IDL)
    { // integer forms only
      for (auto &p : a.t)
        p.second = p.second.get_num();
      for (auto &p : b.t)
        p.second = p.second.get_num();
      a.k = a.k.get_num();
      b.k = b.k.get_num();
    }
    auto is_big = [&](const Qx &q)
    { return q.inf != 0; };
    // bounds of (x_to - x_from) from the network's own matrix
    auto diff_bounds = [&](int from, int to)
    { return std::make_pair(neg(net_dist(th, to, from)), net_dist(th, from, to)); };
    auto expr_bounds = [&](const LinR &e, std::pair<Qx, Qx> &out) -> bool
    {
      if (e.t.empty())
      {
        out = {Qx(e.k), Qx(e.k)};
        return true;
      }
      std::pair<Qx, Qx> base;
      mpq_class c;
      if (e.t.size() == 1)
      {
        base = diff_bounds(0, e.t.begin()->first);
        c = e.t.begin()->second;
      }
      else if (e.t.size() == 2)
      {
        auto it = e.t.begin();
        int v0 = it->first;
        c = it->second;
        ++it;
        if (it->second != -c)
          return false;
        base = diff_bounds(it->first, v0); // v0 - v1
      }
      else
        return false;
      Qx lo = scale(base.first, c), hi = scale(base.second, c);
      if (sgn(c) < 0)
        std::swap(lo, hi);
      out = {lo + Qx(e.k), hi + Qx(e.k)};
      return true;
    };
    std::pair<Qx, Qx> exp, got;
    bool threw = false;
    std::string what;
    smt::lin la = a.to_lin(), lb = b.to_lin();
    auto conv_i = [&](smt::I v)
    {
      if (v >= smt::idl_theory::inf())
        return Qx::pinf();
      if (v <= -smt::idl_theory::inf())
        return Qx::ninf();
      return Qx(mpq_class(v));
    };
    if (kind == 0)
    {
      what = "bounds";
      bool ok = expr_bounds(a, exp);
      try
      {
        if (th == IDL)
        {
          auto r = idl->bounds(la);
          got = {conv_i(r.first), conv_i(r.second)};
        }
        else
        {
          auto r = rdl->bounds(la);
          got = {from(r.first), from(r.second)};
        }
      }
      catch (const std::invalid_argument &)
      {
        threw = true;
      }
      cnt.inc(std::string("dlq.bounds.v") + std::to_string(a.t.size()));
      tr("dlq bounds " + a.text("t") + (threw ? " -> threw" : " -> [" + str(got.first) + "," + str(got.second) + "]"));
      if (threw)
        return; // a reported error is not a wrong answer
      if (!ok)
        return;
      // sentinel arithmetic on unbounded sides is not compared
      if (is_big(exp.first) || is_big(exp.second))
      {
        cnt.inc("dlq.unbounded_skipped");
        return;
      }
      if (cmp(exp.first, got.first) != 0 || cmp(exp.second, got.second) != 0)
        viol(O_N7, "N7", "N7.query.bounds", "bounds(" + a.text("t") + ") = [" + str(got.first) + "," + str(got.second) + "] but the variable-level distances give [" + str(exp.first) + "," + str(exp.second) + "]");
    }
    else if (kind == 1)
    {
      what = "distance";
      // distance(from, to) = bounds of (to - from)
      LinR e = b.minus(a);
      bool ok = expr_bounds(e, exp);
      try
      {
        if (th == IDL)
        {
          auto r = idl->distance(la, lb);
          got = {conv_i(r.first), conv_i(r.second)};
        }
        else
        {
          auto r = rdl->distance(la, lb);
          got = {from(r.first), from(r.second)};
        }
      }
      catch (const std::invalid_argument &)
      {
        threw = true;
      }
      cnt.inc(std::string("dlq.distance.v") + std::to_string(e.t.size()));
      tr("dlq distance " + a.text("t") + " ; " + b.text("t") + (threw ? " -> threw" : " -> [" + str(got.first) + "," + str(got.second) + "]"));
      if (threw || !ok)
        return; // a reported error is not a wrong answer
      if (is_big(exp.first) || is_big(exp.second))
      {
        cnt.inc("dlq.unbounded_skipped");
        return;
      }
      if (cmp(exp.first, got.first) != 0 || cmp(exp.second, got.second) != 0)
        viol(O_N7, "N7", "N7.query.distance", "distance(" + a.text("t") + " ; " + b.text("t") + ") = [" + str(got.first) + "," + str(got.second) + "] but to-from has bounds [" + str(exp.first) + "," + str(exp.second) + "]");
    }
    else
    {
      what = "equates";
      LinR e = a.minus(b);
      bool ok = expr_bounds(e, exp);
      bool r = false;
      try
      {
        r = th == IDL ? idl->equates(la, lb) : rdl->equates(la, lb);
      }
      catch (const std::invalid_argument &)
      {
        threw = true;
      }
      cnt.inc(std::string("dlq.equates.v") + std::to_string(e.t.size()));
      tr("dlq equates " + a.text("t") + " ; " + b.text("t") + (threw ? " -> threw" : (r ? " -> true" : " -> false")));
      if (threw || !ok)
        return;
      bool may = cmp(exp.first, Qx(0)) <= 0 && cmp(exp.second, Qx(0)) >= 0;
      if (may != r)
        viol(O_N7, "N7", "N7.query.equates", "equates(" + a.text("t") + " ; " + b.text("t") + ") = " + (r ? "true" : "false") + " but the difference has bounds [" + str(exp.first) + "," + str(exp.second) + "]");
    }
  }
} // namespace net
