#include "engine.h"

namespace net
{
  using sim::layout::Suspend;

  void Run::after_op(bool result_known, bool result, const std::vector<z3::expr> &n2_premise, const char *opname)
  {
    if (stop)
      return;
    check_pending_clauses();
    if (stop)
      return;
    const std::string on(opname);
    if (result_known && !result)
    {
      cnt.inc("false_verdicts");
      if (enabled & O_N2)
      {
        int r = z.check_with(n2_premise);
        if (r == 1)
          viol(O_N2, "N2", "N2.false_but_sat." + on, on + " answered false but the clauses, theories and standing assumptions are satisfiable");
        else if (r == 2)
          cnt.inc("inconclusive.n2");
      }
      bool root_dead = on != "check";
      if (!root_dead)
      { // check() answers false both when the assumptions are refuted and when, after learning from them,
        // the clauses themselves turn out inconsistent at root level; in the latter case the network is spent
        // (sat_core keeps no flag for it), so the history ends exactly as after any other root-level false.
        int r0 = z.check_with(zdecisions());
        if (r0 != 1)
          root_dead = true;
      }
      if (root_dead)
      {
        dead = true;
        tr("network reported a root-level inconsistency; history ends");
        cnt.inc("ended_inconsistent");
        return;
      }
    }
    if (stop || dead)
      return;
    const size_t level = sat->decision_level();
    if (level >= 3)
      cnt.inc("probe.level_ge3");
    check_n1();
    if (stop)
      return;
    check_listening();
    if (stop)
      return;
    if (queue_clean)
    {
      check_fixpoint();
      if (stop)
        return;
      check_n3();
      if (stop)
        return;
      if (idl)
        check_dl(IDL);
      if (rdl && !stop)
        check_dl(RDL);
      if (idl && !stop)
        check_dl_tree(IDL);
      if (rdl && !stop)
        check_dl_tree(RDL);
      if (ov && !stop)
        check_ov();
      if (lra && !stop)
        check_lra();
      if (stop)
        return;
      // rollback exactness: back at a level whose snapshot has the same assigned set
      if (level < snaps.size())
      {
        auto cur = observe();
        if (cur.first == snaps[level].first)
        {
          cnt.inc("snapshot_comparisons");
          if (cur.second != snaps[level].second)
          {
            // find the differing section
            std::string a = snaps[level].second, b = cur.second;
            size_t i = 0;
            while (i < a.size() && i < b.size() && a[i] == b[i])
              ++i;
            size_t sec = a.rfind('#', i);
            std::string which = sec == std::string::npos ? "?" : a.substr(sec + 1, 3);
            unsigned bit = which == "lra" ? O_N5_LRA : O_N5_DL;
            viol(bit, "N5", "N5.snapshot." + which, "after returning to level " + std::to_string(level) + " with the same assigned literals, observables differ: before [" + a.substr(sec == std::string::npos ? 0 : sec, 160) + "] after [" + b.substr(sec == std::string::npos ? 0 : sec, 160) + "]");
          }
        }
        else
          cnt.inc("snapshot_skipped_assigned_set_changed");
        snaps.resize(level + 1);
      }
    }
  }

  // N10: propagation at root level forgets the theories bound to the literal it has just processed ("this variable will no more
  // be assigned"). That is only right for a literal that really is assigned at root level: a literal of a theory that is still
  // unassigned, or assigned above root level, must still reach its theory the next time it changes.
  void Run::check_listening()
  {
    if (!(enabled & O_N10))
      return;
    auto one = [this](smt::var v, const char *th)
    {
      if (stop || (sat->value(v) != smt::Undefined && sat->level[v] == 0))
        return;
      cnt.inc("listening_checks");
      if (!sat->bounds.count(v))
        viol(O_N10, "N10", std::string("N10.theory_not_listening.") + th, "b" + std::to_string(v) + " is a literal of the " + th + " theory, it is " + (sat->value(v) == smt::Undefined ? "unassigned" : "assigned above root level") + ", but no theory is bound to it any more: its next change will not reach the theory");
    };
    for (auto &p : lra_atoms)
      one(p.first, "lra");
    for (auto &p : dl_edges)
      one(p.first, p.second.th == IDL ? "idl" : "rdl");
  }

  // N11: with an empty propagation queue and no conflict reported, unit propagation is at its fixpoint over every clause the
  // network was ever given (new_clause, from callers, constructs and theories alike) or recorded itself (learnt clauses,
  // theory lemmas): none is falsified, none has all literals false but one that is still unassigned. Which values follow is then
  // a function of the clauses and the assigned literals alone, whatever was decided and undone before (two watched literals
  // that survive backjumps and pops).
  void Run::check_fixpoint()
  {
    if (!(enabled & O_N11))
      return;
    cnt.inc("fixpoint_checks");
    for (auto &c : all_clauses)
    {
      size_t open = 0;
      lit last;
      bool sat_already = false;
      for (auto &l : c)
      {
        smt::lbool v = sat->value(l);
        if (v == smt::True)
        {
          sat_already = true;
          break;
        }
        if (v == smt::Undefined)
          ++open, last = l;
      }
      if (sat_already || open >= 2)
        continue;
      std::string txt;
      for (auto &l : c)
        txt += " " + lstr(l) + "=" + vstr(sat->value(l));
      if (open == 0)
        viol(O_N11, "N11", "N11.clause_falsified", "propagation succeeded but every literal of a clause of the network is false:" + txt + " (level " + std::to_string(sat->decision_level()) + ")");
      else
        viol(O_N11, "N11", "N11.unit_not_propagated", "the propagation queue is empty but a clause of the network has all its literals false except " + lstr(last) + ", which is still unassigned:" + txt + " (level " + std::to_string(sat->decision_level()) + ")");
      return;
    }
  }

  void Run::take_snapshot()
  {
    if (!(enabled & (O_N5_LRA | O_N5_DL)))
      return;
    size_t level = sat->decision_level();
    snaps.resize(level + 1);
    snaps[level] = observe();
  }

  std::pair<std::string, std::string> Run::observe()
  {
    std::string key = "E" + std::to_string(epoch) + "L" + std::to_string(sat->decision_level()) + ":";
    for (size_t i = 1; i < blist.size(); ++i)
      key += vstr(sat->value(blist[i]));
    std::string obs;
    if (lra && !lra_hidden)
    {
      obs += "#lra";
      for (size_t v = 0; v < lra_defs.size(); ++v)
        obs += " x" + std::to_string(v) + "[" + str(from(lra->lb(v))) + "," + str(from(lra->ub(v))) + "]";
    }
    for (int th : {IDL, RDL})
      if ((th == IDL ? (idl != nullptr) : (rdl != nullptr)) && !dl_hidden[th])
      {
        obs += th == IDL ? "#idl" : "#rdl";
        int n = th == IDL ? n_idl : n_rdl;
        for (int i = 0; i < n; ++i)
          for (int j = 0; j < n; ++j)
            if (i != j)
              obs += " " + str(net_dist(th, i, j));
      }
    return {key, obs};
  }

  Qx Run::net_dist(int th, int i, int j)
  {
    if (th == IDL)
    {
      smt::I d = idl->distance(static_cast<smt::var>(i), static_cast<smt::var>(j)).second;
      if (d >= smt::idl_theory::inf())
        return Qx::pinf();
      return Qx(mpq_class(d));
    }
    return from(rdl->distance(static_cast<smt::var>(i), static_cast<smt::var>(j)).second);
  }

  // N1: every value the network reports is a consequence of Phi and the standing decisions
  void Run::check_n1()
  {
    if (!(enabled & O_N1))
      return;
    std::vector<lit> as;
    for (size_t i = 1; i < blist.size(); ++i)
    {
      smt::lbool v = sat->value(blist[i]);
      if (v != smt::Undefined)
        as.push_back(lit(blist[i], v == smt::True));
    }
    if (as.empty())
      return;
    std::vector<z3::expr> q = zdecisions();
    {
      Suspend s;
      z3::expr_vector ors(z.ctx);
      for (auto &l : as)
        ors.push_back(!z.zl(l));
      q.push_back(z3::mk_or(ors));
    }
    int r = z.check_with(q);
    cnt.inc("n1_checks");
    if (r == 2)
    {
      cnt.inc("inconclusive.n1");
      return;
    }
    if (r == 1)
    { // find one culprit
      std::string which;
      for (auto &l : as)
      {
        std::vector<z3::expr> q1 = zdecisions();
        {
          Suspend s;
          q1.push_back(!z.zl(l));
        }
        if (z.check_with(q1) == 1)
        {
          which = lstr(l);
          break;
        }
      }
      viol(O_N1, "N1", "N1.unjustified_value", "the network reports " + which + " true at level " + std::to_string(sat->decision_level()) + " but it does not follow from the clauses, theories and standing decisions");
    }
  }

  Qx Run::eval_lin_lra(const LinR &e)
  {
    Qx s(e.k);
    for (auto &p : e.t)
      s = s + scale(lra_value(p.first), p.second);
    return s;
  }

  // three-valued evaluation on the reported values: 0 false, 1 true, 2 undetermined
  int Run::eval(const FP &f, bool &lra_ok)
  {
    switch (f->k)
    {
    case F::CONST:
      return f->cval;
    case F::LIT:
    {
      smt::lbool v = sat->value(f->l);
      return v == smt::Undefined ? 2 : (v == smt::True ? 1 : 0);
    }
    case F::NOT:
    {
      int a = eval(f->sub[0], lra_ok);
      return a == 2 ? 2 : 1 - a;
    }
    case F::AND:
    {
      int r = 1;
      for (auto &c : f->sub)
      {
        int a = eval(c, lra_ok);
        if (a == 0)
          return 0;
        if (a == 2)
          r = 2;
      }
      return r;
    }
    case F::OR:
    {
      int r = 0;
      for (auto &c : f->sub)
      {
        int a = eval(c, lra_ok);
        if (a == 1)
          return 1;
        if (a == 2)
          r = 2;
      }
      return r;
    }
    case F::IFF:
    {
      int a = eval(f->sub[0], lra_ok), b = eval(f->sub[1], lra_ok);
      return (a == 2 || b == 2) ? 2 : (a == b);
    }
    case F::IMP:
    {
      int a = eval(f->sub[0], lra_ok), b = eval(f->sub[1], lra_ok);
      if (a == 0 || b == 1)
        return 1;
      if (a == 1 && b == 0)
        return 0;
      return 2;
    }
    case F::AMO:
    case F::EXO:
    {
      int t = 0, u = 0;
      for (auto &c : f->sub)
      {
        int a = eval(c, lra_ok);
        if (a == 1)
          ++t;
        else if (a == 2)
          ++u;
      }
      if (t > 1)
        return 0;
      if (u > 0)
        return 2;
      return f->k == F::AMO ? 1 : (t == 1);
    }
    default:
      if (f->th != LRA || !lra)
        return 2;
      {
        for (auto &p : f->e.t)
          if (static_cast<size_t>(p.first) >= lra_defs.size())
            return 2;
        int c = cmp(eval_lin_lra(f->e), Qx(0));
        switch (f->rel)
        {
        case LT:
          return c < 0;
        case LEQ:
          return c <= 0;
        case EQ:
          return c == 0;
        case GEQ:
          return c >= 0;
        default:
          return c > 0;
        }
      }
    }
  }

  // N3: constructs whose literals are all assigned mean their formula; a complete assignment is a model
  void Run::check_n3()
  {
    if (!(enabled & O_N3))
      return;
    bool lra_ok = true;
    for (auto &c : constructs)
    {
      bool all = sat->value(c.ret) != smt::Undefined;
      for (auto &l : c.args)
        all = all && sat->value(l) != smt::Undefined;
      if (!all)
        continue;
      cnt.inc("n3_local_evaluations");
      int fv = eval(c.formula, lra_ok);
      bool rv = sat->value(c.ret) == smt::True;
      bool bad = false;
      if (c.kind <= 2)
        bad = fv != 2 && (fv == 1) != rv;
      else if (c.kind <= 4)
        bad = rv && fv == 0;
      else
        bad = fv == 0;
      if (bad)
      {
        std::string s;
        for (auto &l : c.args)
          s += " " + lstr(l) + "=" + vstr(sat->value(l));
        static const char *kn[] = {"eq", "conj", "disj", "amo", "exo", "oveq"};
        viol(O_N3, "N3", std::string("N3.construct.") + kn[c.kind], std::string("propagation succeeded with ") + lstr(c.ret) + "=" + vstr(sat->value(c.ret)) + " and arguments" + s + ", which contradicts the construct's meaning " + f_text(c.formula));
        return;
      }
    }
    for (size_t i = 1; i < blist.size(); ++i)
      if (sat->value(blist[i]) == smt::Undefined)
        return;
    cnt.inc("probe.complete_assignments");
    for (auto &f : facts)
      if (eval(f, lra_ok) == 0)
      {
        viol(O_N3, "N3", "N3.complete_assignment_not_model", "every variable is assigned and propagation succeeded, but " + f_text(f) + " is false under the reported values");
        return;
      }
  }

  // N4: every clause recorded by the network (learnt, theory lemma) is a consequence of Phi
  void Run::check_pending_clauses()
  {
    std::vector<std::vector<lit>> pend;
    pend.swap(pending_clauses);
    for (size_t ci = 0; ci < pend.size() && !stop; ++ci)
    {
      auto &c = pend[ci];
      cnt.inc("recorded_clauses");
      if (next_nogood_expected == 1)
      { // the first clause recorded by next() must be exactly the negated decisions
        next_nogood_expected = 2;
        std::set<lit> a(c.begin(), c.end()), b(next_nogood.begin(), next_nogood.end());
        if (a != b)
          viol(O_N4, "N4", "N4.next_nogood", "next() recorded a clause different from the negation of the standing decisions");
        continue;
      }
      bool translatable = true, has_lra = false, has_dl = false;
      for (auto &l : c)
      {
        if (!known(l))
          translatable = false;
        if (lra_atoms.count(variable(l)))
          has_lra = true;
        if (dl_edges.count(variable(l)))
          has_dl = true;
      }
      if (!translatable)
      {
        cnt.inc("recorded_clauses.untranslatable");
        continue;
      }
      unsigned bit = O_N4 | (has_lra ? O_N4_LRA : 0) | (has_dl ? O_N4_DL : 0);
      if (!(enabled & bit))
        continue;
      if (c.size() >= 3)
        cnt.inc("probe.recorded_clause_ge3");
      if (has_lra)
        cnt.inc("recorded_clauses.lra");
      if (has_dl)
        cnt.inc("recorded_clauses.dl");
      std::vector<z3::expr> q;
      {
        Suspend s;
        for (auto &l : c)
          q.push_back(!z.zl(l));
      }
      int r = z.check_with(q);
      if (r == 2)
        cnt.inc("inconclusive.n4");
      if (r == 1)
      {
        std::string s;
        for (auto &l : c)
          s += " " + lstr(l);
        viol(enabled & bit, "N4", std::string("N4.clause_not_entailed") + (has_lra ? ".lra" : (has_dl ? ".dl" : ".bool")), "the network recorded the clause {" + s + " } which is not a consequence of what was created");
      }
    }
  }

  void Run::fw(int th, std::vector<std::vector<Qx>> &d, bool &neg_cycle)
  {
    int n = th == IDL ? n_idl : n_rdl;
    d.assign(n, std::vector<Qx>(n, Qx::pinf()));
    for (int i = 0; i < n; ++i)
      d[i][i] = Qx(0);
    auto edge = [&](int from, int to, const Qx &w)
    {
      if (cmp(w, d[from][to]) < 0)
        d[from][to] = w;
    };
    for (auto &p : dl_edges)
    {
      if (p.second.th != th)
        continue;
      smt::lbool v = sat->value(p.first);
      if (v == smt::True)
        edge(p.second.from, p.second.to, p.second.dist);
      else if (v == smt::False)
      { // negation of (to - from <= d): from - to <= -d-1 (IDL), < -d resp. <= -d (RDL)
        Qx w = neg(p.second.dist);
        if (th == IDL)
          w.r -= 1;
        else
          w.e -= 1;
        edge(p.second.to, p.second.from, w);
      }
    }
    for (int k = 0; k < n; ++k)
      for (int i = 0; i < n; ++i)
        for (int j = 0; j < n; ++j)
          if (!d[i][k].inf && !d[k][j].inf)
          {
            Qx s = d[i][k] + d[k][j];
            if (cmp(s, d[i][j]) < 0)
              d[i][j] = s;
          }
    neg_cycle = false;
    for (int i = 0; i < n; ++i)
      if (cmp(d[i][i], Qx(0)) < 0)
        neg_cycle = true;
  }

  // N9 (white box; the engine is compiled with -fno-access-control). The theories explain a distance by walking their
  // predecessor matrix from the target back to the source and collecting, for every hop, the literal of the constraint
  // registered as enforced on that edge. That is only right if, for every finite distance d(i,j), the walk ends (at i,
  // within n hops) and every hop p -> c is an enforced constraint (its literal assigned in the enforcing polarity) whose
  // weight w satisfies d(i,c) = d(i,p) + w. Backtracking has to restore exactly this, whatever was tightened and undone.
  template <typename TH, typename NUM, typename ISINF>
  static std::string dl_tree(const TH &t, size_t n, smt::sat_core &sat, ISINF is_inf, const NUM &delta)
  {
    for (size_t i = 0; i < n; ++i)
      for (size_t j = 0; j < n; ++j)
      {
        if (i == j || is_inf(t._dists[i][j]))
          continue;
        size_t c = j, hops = 0;
        while (c != i)
        {
          const size_t p = t._preds[i][c];
          if (p >= n || ++hops > n)
            return "the predecessor walk for d(" + std::to_string(i) + "," + std::to_string(j) + ") does not reach the source (at node " + std::to_string(c) + ")";
          auto it = t.dist_constr.find({p, c});
          if (it == t.dist_constr.end())
            return "hop " + std::to_string(p) + "->" + std::to_string(c) + " of the path for d(" + std::to_string(i) + "," + std::to_string(j) + ") has no enforced constraint";
          const auto *k = it->second;
          NUM w;
          if (k->from == p && k->to == c && sat.value(k->b) == smt::True)
            w = k->dist;
          else if (k->from == c && k->to == p && sat.value(k->b) == smt::False)
            w = -k->dist - delta;
          else
            return "hop " + std::to_string(p) + "->" + std::to_string(c) + " of the path for d(" + std::to_string(i) + "," + std::to_string(j) + ") points to a constraint (" + to_string(k->b) + ") that is not enforced in that direction now";
          const NUM dp = p == i ? NUM(0) : t._dists[i][p];
          if (!(dp + w == t._dists[i][c]))
            return "d(" + std::to_string(i) + "," + std::to_string(c) + ") is not d(" + std::to_string(i) + "," + std::to_string(p) + ") plus the weight of the constraint enforced on " + std::to_string(p) + "->" + std::to_string(c);
          c = p;
        }
      }
    return "";
  }

  void Run::check_dl_tree(int th)
  {
    if (!(enabled & O_N9_DL))
      return;
    std::string r;
    if (th == IDL)
      r = dl_tree<smt::idl_theory, smt::I>(*idl, idl->size(), *sat, [](const smt::I &x) { return x >= smt::idl_theory::inf(); }, smt::I(1));
    else
      r = dl_tree<smt::rdl_theory, smt::inf_rational>(*rdl, rdl->size(), *sat, [](const smt::inf_rational &x) { return is_positive_infinite(x); }, smt::inf_rational(smt::rational::ZERO, smt::rational::ONE));
    cnt.inc("dl_tree_checks");
    if (!r.empty())
      viol(O_N9_DL, "N9", std::string("N9.") + (th == IDL ? "idl" : "rdl") + ".path_tree", r + " (level " + std::to_string(sat->decision_level()) + ")");
  }

  void Run::check_dl(int th)
  {
    if (!(enabled & (O_N5_DL | O_N7)))
      return;
    int n = th == IDL ? n_idl : n_rdl;
    const char *tn = th == IDL ? "idl" : "rdl";
    if (dl_hidden[th])
    { // soundness only: no reported distance may cut off a solution
      if (!(enabled & O_N5_DL) || n < 2)
        return;
      std::vector<z3::expr> q = zdecisions();
      {
        Suspend s;
        z3::expr_vector ors(z.ctx);
        for (int i = 0; i < n; ++i)
          for (int j = 0; j < n; ++j)
            if (i != j)
            {
              Qx dd = net_dist(th, i, j);
              if (dd.inf)
                continue;
              z3::expr diff = z.zx(th, j) - z.zx(th, i);
              if (th == IDL)
                ors.push_back(diff > z.ctx.int_val(dd.r.get_num().get_str().c_str()));
              else
                ors.push_back(dd.e < 0 ? diff >= z.zq(dd.r) : diff > z.zq(dd.r));
            }
        if (ors.empty())
          return;
        q.push_back(z3::mk_or(ors));
      }
      cnt.inc("dl_soundness_checks");
      if (z.check_with(q) == 1)
        viol(O_N5_DL, "N5", std::string("N5.") + tn + ".unsound_distance", "a reported distance excludes a solution of the asserted constraints");
      return;
    }
    std::vector<std::vector<Qx>> d;
    bool negcyc;
    fw(th, d, negcyc);
    cnt.inc("dl_exactness_checks");
    if (negcyc)
    {
      viol(O_N7, "N7", std::string("N7.") + tn + ".negative_cycle_undetected", "propagation succeeded although the asserted difference constraints contain a negative cycle");
      return;
    }
    for (int i = 0; i < n && !stop; ++i)
      for (int j = 0; j < n && !stop; ++j)
        if (i != j)
        {
          Qx got = net_dist(th, i, j);
          if (cmp(got, d[i][j]) != 0)
            viol(O_N5_DL, "N5", std::string("N5.") + tn + ".distance", std::string("distance(") + std::to_string(i) + "," + std::to_string(j) + ") is " + str(got) + " but the asserted constraints imply exactly " + str(d[i][j]) + " (level " + std::to_string(sat->decision_level()) + ")");
        }
    if (stop || !(enabled & O_N7))
      return;
    for (auto &p : dl_edges)
      if (p.second.th == th && sat->value(p.first) == smt::Undefined)
      {
        const DLEdge &e = p.second;
        if (cmp(d[e.from][e.to], e.dist) <= 0)
        {
          viol(O_N7, "N7", std::string("N7.") + tn + ".not_propagated", "b" + std::to_string(p.first) + " is already implied by the distances but left undecided");
          return;
        }
        Qx nd = neg(e.dist);
        if (cmp(d[e.to][e.from], nd) < 0)
        {
          viol(O_N7, "N7", std::string("N7.") + tn + ".not_propagated", "b" + std::to_string(p.first) + " is already refuted by the distances but left undecided");
          return;
        }
      }
  }

  void Run::check_ov()
  {
    if (!(enabled & O_N5_OV))
      return;
    for (size_t v = 0; v < ovars.size(); ++v)
    {
      std::set<int> exp, got;
      for (auto &p : ovars[v].vals)
        if (sat->value(p.second) != smt::False)
          exp.insert(p.first);
      for (auto *pv : ov->value(v))
        got.insert(static_cast<PoolVal *>(pv)->id);
      cnt.inc("ov_domain_checks");
      if (exp != got)
      {
        viol(O_N5_OV, "N5", "N5.ov.domain", "reported domain of e" + std::to_string(v) + " differs from the set of values not excluded");
        return;
      }
      for (auto &p : ovars[v].vals)
        if (ov->allows(v, *pool[p.first]) != p.second)
        {
          viol(O_N5_OV, "N5", "N5.ov.allows", "allows() changed its answer");
          return;
        }
    }
  }

  // N6: LRA values are a model of the asserted relations, lie within bounds, bounds contain every solution
  void Run::check_lra()
  {
    if (!(enabled & O_N6))
      return;
    bool ok = true;
    cnt.inc("lra_model_checks");
    for (auto &p : lra_atoms)
    {
      smt::lbool v = sat->value(p.first);
      if (v == smt::Undefined)
        continue;
      int a = eval(p.second, ok);
      if (a != 2 && (a == 1) != (v == smt::True))
      {
        std::string vals;
        for (auto &t : p.second->e.t)
          vals += " x" + std::to_string(t.first) + "=" + str(lra_value(t.first));
        viol(O_N6, "N6", "N6.lra.value_violates_relation", "b" + std::to_string(p.first) + "=" + vstr(v) + " stands for " + f_text(p.second) + " but the reported values" + vals + " say otherwise");
        return;
      }
    }
    for (auto &gd : guards)
      if (gd.defined && sat->value(gd.g) == smt::True)
      {
        int a = eval(gd.atom, ok);
        if (a == 0)
        {
          viol(O_N6, "N6", "N6.lra.value_violates_client_bound", "the client bound " + f_text(gd.atom) + " imposed under b" + std::to_string(gd.g) + " (true) is violated by the reported value x" + std::to_string(gd.x) + "=" + str(lra_value(gd.x)));
          return;
        }
      }
    for (size_t v = 0; v < lra_defs.size(); ++v)
    {
      if (lra_defs[v].first)
      {
        Qx a = lra_value(static_cast<int>(v)), b = eval_lin_lra(lra_defs[v].second);
        if (cmp(a, b) != 0)
        {
          viol(O_N6, "N6", "N6.lra.defining_equation", "x" + std::to_string(v) + " = " + str(a) + " but its defining expression " + lra_defs[v].second.text("x") + " evaluates to " + str(b));
          return;
        }
      }
      Qx val = lra_value(static_cast<int>(v)), lo = from(lra->lb(v)), hi = from(lra->ub(v));
      if (cmp(lo, val) > 0 || cmp(val, hi) > 0)
      {
        viol(O_N6, "N6", "N6.lra.value_outside_bounds", "x" + std::to_string(v) + " = " + str(val) + " outside [" + str(lo) + "," + str(hi) + "]");
        return;
      }
    }
    // bounds contain every real solution of what is currently asserted
    std::vector<z3::expr> q;
    int r;
    {
      Suspend s;
      z3::expr_vector ors(z.ctx);
      for (size_t v = 0; v < lra_defs.size(); ++v)
      {
        if (lra_internal.count(v))
          continue;
        Qx lo = from(lra->lb(v)), hi = from(lra->ub(v));
        z3::expr x = z.zx(LRA, static_cast<int>(v));
        if (!lo.inf)
          ors.push_back(lo.e > 0 ? x <= z.zq(lo.r) : x < z.zq(lo.r));
        if (!hi.inf)
          ors.push_back(hi.e < 0 ? x >= z.zq(hi.r) : x > z.zq(hi.r));
      }
      if (ors.empty())
        return;
      if (lra_hidden)
      {
        q = zdecisions();
        q.push_back(z3::mk_or(ors));
      }
      else
      {
        z3::solver tmp(z.ctx);
        for (auto &p : lra_atoms)
        {
          smt::lbool v = sat->value(p.first);
          if (v == smt::True)
            tmp.add(z.zf(p.second));
          else if (v == smt::False)
            tmp.add(!z.zf(p.second));
        }
        for (auto &gd : guards)
          if (gd.defined && sat->value(gd.g) == smt::True)
            tmp.add(z.zf(gd.atom));
        for (size_t v = 0; v < lra_defs.size(); ++v)
          if (lra_defs[v].first)
          {
            LinR dd = lra_defs[v].second;
            dd.add(static_cast<int>(v), -1);
            tmp.add(z.zatom(LRA, dd, EQ));
          }
        tmp.add(z3::mk_or(ors));
        z3::check_result cr = tmp.check();
        ++z.n_queries;
        r = cr == z3::unsat ? 0 : (cr == z3::sat ? 1 : 2);
      }
    }
    if (lra_hidden)
      r = z.check_with(q);
    cnt.inc("lra_bound_containment_checks");
    if (r == 1)
      viol(O_N6, "N6", "N6.lra.bound_excludes_solution", "a reported bound excludes a real solution of the currently asserted constraints");
  }
} // namespace net
