#include "engine.h"

namespace net
{
  using sim::layout::Suspend;

  void Run::exec_op(const Op &op)
  {
    const std::string &n = op.name;
    if (n == "bvar")
    {
      if (!sat->root_level())
        return;
      ++epoch;
      reg(sat->new_var());
      cnt.inc("bvar");
    }
    else if (n == "clause")
    {
      if (!sat->root_level())
      {
        cnt.inc("skipped.not_root");
        return;
      }
      size_t pos = 0;
      std::vector<lit> ls = parse_lits(op, pos);
      if (ls.empty())
        return;
      ++epoch;
      std::vector<FP> fs;
      for (auto &l : ls)
        fs.push_back(f_lit(l));
      add_fact(f_n(F::OR, fs));
      bool r = sat->new_clause(ls);
      queue_clean = false;
      cnt.inc("clause");
      tr(std::string("clause -> ") + (r ? "true" : "false"));
      after_op(true, r, {}, "clause");
    }
    else if (n == "eq")
      op_bool_construct(op, 0);
    else if (n == "conj")
      op_bool_construct(op, 1);
    else if (n == "disj")
      op_bool_construct(op, 2);
    else if (n == "amo")
      op_bool_construct(op, 3);
    else if (n == "exo")
      op_bool_construct(op, 4);
    else if (n == "lvar")
    {
      if (!lra || !sat->root_level())
        return;
      ++epoch;
      smt::var v = lra->new_var();
      lra_sync(v);
      lra_defs.push_back({false, LinR()});
      cnt.inc("lvar");
    }
    else if (n == "lder")
    {
      if (!lra || lra_defs.empty() || !sat->root_level())
        return;
      size_t pos = 0;
      LinR e = parse_lin(op, pos, lra_usable());
      if (e.t.empty())
        return;
      ++epoch;
      smt::var v = lra->new_var(e.to_lin());
      LinR d = e;
      d.add(static_cast<int>(v), -1);
      FP def = f_atom(LRA, d, EQ);
      tr("lder " + e.text("x") + " -> x" + std::to_string(v));
      if (v >= lra_defs.size())
      {
        lra_sync(v);
        lra_defs.push_back({true, e});
        add_fact(def);
        cnt.inc("lder.fresh");
      }
      else if (lra_internal.count(v))
      { // an internal slack is handed out for this expression: from now on it has a known meaning
        lra_internal.erase(v);
        lra_defs[v] = {true, e};
        add_fact(def);
        cnt.inc("lder.slack_exposed");
      }
      else
      { // an existing variable was returned: it must already equal the expression
        cnt.inc("lder.shared");
        std::vector<z3::expr> q;
        {
          Suspend s;
          q.push_back(!z.zf(def));
        }
        if (z.check_with(q) == 1)
          viol(O_N8_LRA, "N8", "N8.lra.var_shared", "new_var(" + e.text("x") + ") returned x" + std::to_string(v) + " which is not equal to that expression");
      }
      after_op(false, true, {}, "lder");
    }
    else if (n == "lrel")
      op_lrel(op);
    else if (n == "ivar")
    {
      if (!idl || !sat->root_level())
        return;
      ++epoch;
      smt::var v = idl->new_var();
      n_idl = static_cast<int>(v) + 1;
      if (v >= static_cast<smt::var>(16))
        cnt.inc("probe.dl_matrix_grown");
      cnt.inc("ivar");
    }
    else if (n == "rvar")
    {
      if (!rdl || !sat->root_level())
        return;
      ++epoch;
      smt::var v = rdl->new_var();
      n_rdl = static_cast<int>(v) + 1;
      cnt.inc("rvar");
    }
    else if (n == "idist")
      op_dl_dist(op, IDL, false);
    else if (n == "idist2")
      op_dl_dist(op, IDL, true);
    else if (n == "rdist")
      op_dl_dist(op, RDL, false);
    else if (n == "rdist2")
      op_dl_dist(op, RDL, true);
    else if (n == "irel")
      op_dl_rel(op, IDL);
    else if (n == "rrel")
      op_dl_rel(op, RDL);
    else if (n == "iq")
      op_dl_query(op, IDL);
    else if (n == "rq")
      op_dl_query(op, RDL);
    else if (n == "ovar")
      op_ovar(op);
    else if (n == "ovar2")
      op_ovar2(op);
    else if (n == "oeq")
      op_oeq(op);
    else if (n == "prop")
    {
      bool r = sat->propagate();
      queue_clean = true;
      cnt.inc("prop");
      tr(std::string("propagate -> ") + (r ? "true" : "false"));
      after_op(true, r, zdecisions(), "prop");
    }
    else if (n == "assume")
    {
      ensure_clean();
      if (dead || stop)
        return;
      std::vector<lit> und;
      for (size_t i = 1; i < blist.size(); ++i)
        if (sat->value(blist[i]) == smt::Undefined)
          und.push_back(lit(blist[i]));
      if (und.empty())
      {
        cnt.inc("skipped.assume_none_undefined");
        return;
      }
      size_t k = static_cast<size_t>(std::abs(op.arg(1)));
      if (k >= 2000)
      { // among the constraint literals only
        std::vector<lit> tund;
        for (auto v : tlist)
          if (sat->value(v) == smt::Undefined)
            tund.push_back(lit(v));
        if (!tund.empty())
          und = tund;
        k -= 2000;
      }
      lit p = und[k >= 1000 ? und.size() - 1 - (k - 1000) % und.size() : k % und.size()];
      if (!(op.arg(0) & 1))
        p = !p;
      op_assume(p);
    }
    else if (n == "pop")
    {
      if (sat->root_level())
        return;
      sat->pop();
      cnt.inc("pop");
      tr("pop level=" + std::to_string(sat->decision_level()));
      after_op(false, true, {}, "pop");
    }
    else if (n == "popto")
    {
      if (sat->root_level())
        return;
      size_t target = static_cast<size_t>(std::abs(op.arg(0))) % (sat->decision_level() + 1);
      if (sat->decision_level() - target >= 2)
        cnt.inc("probe.multi_level_pop");
      while (sat->decision_level() > target)
        sat->pop();
      cnt.inc("popto");
      tr("popto level=" + std::to_string(sat->decision_level()));
      after_op(false, true, {}, "popto");
    }
    else if (n == "next")
    {
      if (sat->root_level())
        return;
      ensure_clean();
      if (dead || stop)
        return;
      std::vector<lit> dec = sat->get_decisions();
      std::vector<FP> fs;
      next_nogood.clear();
      for (auto &l : dec)
      {
        fs.push_back(f_lit(!l));
        next_nogood.push_back(!l);
      }
      add_fact(f_n(F::OR, fs)); // by definition of next(): the current decisions are excluded from now on
      next_nogood_expected = 1;
      bool r = sat->next();
      cnt.inc("next");
      tr(std::string("next -> ") + (r ? "true" : "false") + " level=" + std::to_string(sat->decision_level()));
      after_op(true, r, zdecisions(), "next");
      next_nogood_expected = 0;
    }
    else if (n == "check")
    {
      ensure_clean();
      if (dead || stop)
        return;
      size_t pos = 0;
      std::vector<lit> ls = parse_lits(op, pos);
      if (ls.size() > 4)
        ls.resize(4);
      if (ls.empty())
        return;
      take_snapshot();
      std::vector<z3::expr> prem = zdecisions();
      {
        Suspend s;
        for (auto &l : ls)
          prem.push_back(z.zl(l));
      }
      size_t lvl = sat->decision_level();
      const std::vector<lit> dec_before = sat->get_decisions();
      bool r = sat->check(ls);
      cnt.inc("check");
      if (sat->decision_level() < lvl)
        cnt.inc("probe.check_backjumped_below_start");
      { // the assumptions of a check are temporary: whatever it answers, no decision may stand afterwards that did not stand before
        const std::vector<lit> dec_after = sat->get_decisions();
        bool prefix = dec_after.size() <= dec_before.size();
        for (size_t i = 0; prefix && i < dec_after.size(); ++i)
          prefix = dec_after[i] == dec_before[i];
        if (!prefix && (enabled & (O_N1 | O_N5_BOOL)))
        {
          std::string ds;
          for (auto &l : dec_after)
            ds += " " + lstr(l);
          viol(O_N1, "N1", "N1.check_left_assumptions", std::string("check() answered ") + (r ? "true" : "false") + " and left decisions standing that were not there before it was called (level " + std::to_string(lvl) + " -> " + std::to_string(sat->decision_level()) + "):" + ds);
          return;
        }
      }
      std::string s = "check";
      for (auto &l : ls)
        s += " " + lstr(l);
      tr(s + " -> " + (r ? "true" : "false") + " level=" + std::to_string(sat->decision_level()));
      after_op(true, r, prem, "check");
    }
    else if (n == "simp")
    {
      if (!sat->root_level())
        return;
      bool r = sat->simplify_db();
      queue_clean = true;
      cnt.inc("simp");
      tr(std::string("simplify_db -> ") + (r ? "true" : "false"));
      after_op(true, r, {}, "simp");
    }
    else if (n == "sweep")
      op_sweep(op);
    else if (n == "guard")
    {
      if (!lra || !sat->root_level())
        return;
      ++epoch;
      Guard gd;
      gd.g = sat->new_var();
      bknown.insert(gd.g); // known to the oracles (learnt clauses mention it), never offered to the other ops
      guards.push_back(gd);
      cnt.inc("guard");
    }
    else if (n == "cbound")
      op_cbound(op);
    else
      cnt.inc("unknown_op");
  }
} // namespace net
