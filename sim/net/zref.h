// z3 side of the reference: Phi (the meaning of everything created so far) kept in one incremental
// solver; entailment / satisfiability questions asked with push/pop. z3 is the independent complete
// decision procedure the oracles rely on; only verdicts (never models or timings) feed the event log.
#pragma once
#include "ref.h"
#include "../core/layout.h"

namespace net
{
  class ZRef
  {
  public:
    ZRef() : slv(ctx)
    {
      z3::params p(ctx);
      p.set("rlimit", 4000000u); // deterministic resource limit ...
      p.set("timeout", 3000u);   // ... and a wall-clock backstop; either way the answer is "unknown" = inconclusive
      slv.set(p);
    }
    z3::expr zb(smt::var v)
    {
      if (v == smt::FALSE_var)
        return ctx.bool_val(false);
      return ctx.bool_const(("b" + std::to_string(v)).c_str());
    }
    z3::expr zl(smt::lit l) { return sign(l) ? zb(variable(l)) : !zb(variable(l)); }
    z3::expr zx(int th, int v)
    {
      switch (th)
      {
      case LRA:
        return ctx.real_const(("x" + std::to_string(v)).c_str());
      case IDL:
        return v == 0 ? ctx.int_val(0) : ctx.int_const(("i" + std::to_string(v)).c_str());
      default:
        return v == 0 ? ctx.real_val(0) : ctx.real_const(("r" + std::to_string(v)).c_str());
      }
    }
    z3::expr zq(const mpq_class &q) { return ctx.real_val(q.get_str().c_str()); }
    z3::expr zlin(int th, const LinR &e)
    {
      z3::expr s = zq(e.k);
      for (auto &p : e.t)
      {
        z3::expr x = zx(th, p.first);
        if (th == IDL)
          x = z3::to_real(x);
        s = s + zq(p.second) * x;
      }
      return s;
    }
    z3::expr zatom(int th, const LinR &e0, int rel)
    {
      z3::expr l(ctx), z(ctx);
      if (th == IDL)
      { // pure integer arithmetic: scale by the (positive) lcm of all denominators
        mpz_class L = e0.k.get_den();
        for (auto &p : e0.t)
          L = lcm(L, p.second.get_den());
        LinR e = e0.times(mpq_class(L));
        l = ctx.int_val(e.k.get_num().get_str().c_str());
        for (auto &p : e.t)
          l = l + ctx.int_val(p.second.get_num().get_str().c_str()) * zx(th, p.first);
        z = ctx.int_val(0);
      }
      else
      {
        l = zlin(th, e0);
        z = ctx.real_val(0);
      }
      switch (rel)
      {
      case LT:
        return l < z;
      case LEQ:
        return l <= z;
      case EQ:
        return l == z;
      case GEQ:
        return l >= z;
      default:
        return l > z;
      }
    }
    z3::expr zf(const FP &f)
    {
      switch (f->k)
      {
      case F::CONST:
        return ctx.bool_val(f->cval);
      case F::LIT:
        return zl(f->l);
      case F::NOT:
        return !zf(f->sub[0]);
      case F::AND:
      {
        z3::expr_vector v(ctx);
        for (auto &c : f->sub)
          v.push_back(zf(c));
        return v.empty() ? ctx.bool_val(true) : z3::mk_and(v);
      }
      case F::OR:
      {
        z3::expr_vector v(ctx);
        for (auto &c : f->sub)
          v.push_back(zf(c));
        return v.empty() ? ctx.bool_val(false) : z3::mk_or(v);
      }
      case F::IFF:
        return zf(f->sub[0]) == zf(f->sub[1]);
      case F::IMP:
        return z3::implies(zf(f->sub[0]), zf(f->sub[1]));
      case F::AMO:
      case F::EXO:
      {
        // counted with multiplicity, exactly like the cardinality constraint over the argument list
        z3::expr s = ctx.int_val(0);
        for (auto &c : f->sub)
          s = s + z3::ite(zf(c), ctx.int_val(1), ctx.int_val(0));
        return f->k == F::AMO ? (s <= 1) : (s == 1);
      }
      default:
        return zatom(f->th, f->e, f->rel);
      }
    }
    void add(const FP &f)
    {
      sim::layout::Suspend s;
      slv.add(zf(f));
      ++n_facts;
    }
    // 0 = unsat, 1 = sat, 2 = unknown
    int check_with(const std::vector<z3::expr> &extra)
    {
      sim::layout::Suspend s;
      ++n_queries;
      slv.push();
      for (auto &e : extra)
        slv.add(e);
      z3::check_result r = slv.check();
      slv.pop();
      if (r == z3::unknown)
        ++n_unknown;
      return r == z3::unsat ? 0 : (r == z3::sat ? 1 : 2);
    }
    z3::context ctx;
    z3::solver slv;
    long n_facts = 0, n_queries = 0, n_unknown = 0;
  };
} // namespace net
