// PAR engine (C20): the PARALLELIZE build of libsmt + the real smt::thread_pool under the deterministic
// scheduler of sched.cpp. Workload: LRA histories (NET's generator, LRA profile). One command = one history
// under one schedule:
//   run  <id> seed=N sched=S policy=P nprocs=K [expect=<hash>] prop=C20
//   exec <id> sched=S policy=P nprocs=K [expect=<hash>] body=K + ops
// The observation log (result of every op, every literal value, value/lb/ub of every arithmetic variable after
// every op, the multiset of recorded clauses) must not depend on the schedule: 'expect' is the log hash of the
// canonical schedule (never preempt, lowest thread id first: the tasks of a pivot then run one after the other
// in enqueue order, i.e. exactly the sequential algorithm). The same source compiled against the
// PARALLELIZE=OFF build ("seq" configuration) gives the log of the sequential build itself.
#include "sched.h"
#include "../core/worker.h"
#include "../core/common.h"
#include "../core/layout.h"
#include "../net/gen.h"
#include "sat_core.h"
#include "lra_theory.h"
#include "lra_constraint.h"
#include "verif_hooks.h"
#include <algorithm>
#include <set>
#include <sys/mman.h>
#include <thread>

using sim::Op;
using smt::lit;

extern void (*sim_layout_free_hook)(void *, size_t);
static sim::Out *g_out = nullptr;
static sim::EventLog g_log;  // client 0 (the thread that owns the run)
static sim::EventLog g_log2; // client 1 (`clients=2`: a second caller thread with a network of its own, same history)
static std::vector<std::string> g_clauses2;
static const smt::sat_core *g_sat2 = nullptr;
static thread_local int tl_client = 0;
static int g_clients = 1;
static std::string g_struct;
static bool g_debug = false;
static std::vector<std::string> g_debug_lines;
static std::string g_tail;
static std::vector<std::string> g_clauses;
static long g_ops_done = 0;

static std::string rs(const smt::inf_rational &v) { return to_string(v); }

// storage seam for tableau rows (hook H2'): client 0 uses the layout allocator's dedicated pool, client 1 a second LIFO pool at
// another fixed address
namespace
{
  constexpr uintptr_t POOL2_BASE = 0x0d0000000000ULL;
  constexpr size_t POOL2_SIZE = 1ULL << 28;
  uintptr_t g_pool2_bump = 0;
  void *g_pool2_free = nullptr;
  size_t g_pool2_block = 0;
}
static void *row_alloc(size_t n)
{
  if (tl_client == 0)
    return sim::layout::pool_alloc(n);
  if (!g_pool2_bump)
  {
    void *a = mmap(reinterpret_cast<void *>(POOL2_BASE), POOL2_SIZE, PROT_READ | PROT_WRITE, MAP_PRIVATE | MAP_ANONYMOUS | MAP_NORESERVE | MAP_FIXED_NOREPLACE, -1, 0);
    if (a != reinterpret_cast<void *>(POOL2_BASE))
    {
      fprintf(stderr, "par: cannot map the second row pool\n");
      abort();
    }
    g_pool2_bump = POOL2_BASE;
    g_pool2_block = (n + 15) & ~size_t(15);
  }
  if (((n + 15) & ~size_t(15)) != g_pool2_block)
  {
    fprintf(stderr, "par: second row pool asked for another block size\n");
    abort();
  }
  if (g_pool2_free)
  {
    void *p = g_pool2_free;
    g_pool2_free = *static_cast<void **>(p);
    return p;
  }
  void *p = reinterpret_cast<void *>(g_pool2_bump);
  g_pool2_bump += g_pool2_block;
  return p;
}
static void row_free(void *p)
{
  const uintptr_t a = reinterpret_cast<uintptr_t>(p);
  if (a >= POOL2_BASE && a < POOL2_BASE + POOL2_SIZE)
  {
    if (sim_layout_free_hook)
      sim_layout_free_hook(p, g_pool2_block);
    *static_cast<void **>(p) = g_pool2_free;
    g_pool2_free = p;
    return;
  }
  sim::layout::pool_free(p);
}

static void hook(const smt::sat_core &sc, const std::vector<lit> &c)
{
  std::vector<std::string> ls;
  for (auto &l : c)
    ls.push_back(to_string(l));
  std::sort(ls.begin(), ls.end());
  std::string s;
  for (auto &x : ls)
    s += x + " ";
  if (&sc == g_sat2)
  {
    g_clauses2.push_back(s);
    return;
  }
  g_clauses.push_back(s);
  if (g_debug)
  {
    std::string u;
    for (auto &l : c)
      u += to_string(l) + " ";
    g_debug_lines.push_back("rec@op" + std::to_string(g_ops_done) + " " + u);
  }
}

static void emit_result(const std::string &status, const std::string &vline)
{
  if (!g_out)
    return;
  if (!vline.empty())
    g_out->line(vline);
  static const char *names[] = {"lock", "unlock", "cond_wait", "signal", "broadcast", "create", "spurious_wakeups", "contended_locks", "late_workers", "accesses_checked", "shadow_cells"};
  for (auto n : names)
    g_out->line(std::string("C sync.") + n + " " + std::to_string(par::sched_counter(n)));
  g_out->line("C sched.steps " + std::to_string(par::sched_steps()));
  g_out->line("C sched.switches " + std::to_string(par::sched_switches()));
  g_out->line("C sched.max_busy_workers " + std::to_string(par::sched_max_inflight()));
  g_out->line("C sched.workers_that_ran " + std::to_string(par::sched_workers_that_ran()));
  g_out->line("C recorded_clauses " + std::to_string(g_clauses.size()));
  g_out->line(std::string("C par.runs_with_two_caller_threads ") + (g_clients >= 2 ? "1" : "0"));
  bool nontrivial = par::sched_workers_that_ran() >= 2 && par::sched_max_inflight() >= 2;
  g_out->line("R status=" + status + " hash=" + sim::hex64(g_log.hash()) + " ops=" + std::to_string(g_ops_done) + " done=" + std::to_string(par::sched_steps()) + " nontrivial=" + (nontrivial ? "1" : "0") + " sig=" + g_tail + " ihash=" + sim::hex64(par::sched_hash()));
  g_out->flush();
}

static void fatal_hook()
{
  const par::Report &r = par::sched_report();
  std::string cls = r.deadlock ? "PAR.deadlock" : (r.race ? "PAR.data_race" : "PAR.step_cap");
  if (r.step_cap)
    emit_result("INCONCLUSIVE", "");
  else
    emit_result("VIOL", "V oracle=PAR class=" + cls + " op=" + std::to_string(g_ops_done) + " msg=" + r.detail);
}

struct Interp
{
  sim::EventLog *log = &g_log;
  smt::sat_core *sat = nullptr;
  smt::lra_theory *lra = nullptr;
  std::vector<smt::var> bl{smt::FALSE_var};
  std::vector<smt::var> xs;
  struct Guard
  {
    smt::var g;
    bool defined;
    smt::var x;
    int kind;
    smt::inf_rational v;
  };
  std::vector<Guard> guards;
  bool dead = false;
  lit ref(long s, long i) { return lit(bl[static_cast<size_t>(std::labs(i)) % bl.size()], (s & 1) != 0); }
  smt::lin plin(const Op &op, size_t &pos)
  {
    smt::lin l;
    long n = std::labs(op.arg(pos++)) % 5;
    for (long i = 0; i < n; ++i)
    {
      long num = op.arg(pos++), den = std::labs(op.arg(pos++)) % 4 + 1, v = std::labs(op.arg(pos++));
      if (num == 0)
        num = 1;
      if (num > 6 || num < -6)
        num %= 7;
      if (num == 0)
        num = 1;
      if (xs.empty())
        continue;
      smt::var x = xs[static_cast<size_t>(v) % xs.size()];
      smt::rational c(num, den);
      auto it = l.vars.find(x);
      if (it == l.vars.end())
        l.vars.emplace(x, c);
      else
      {
        it->second += c;
        if (it->second == smt::rational::ZERO)
          l.vars.erase(it);
      }
    }
    long kn = op.arg(pos++), kd = std::labs(op.arg(pos++)) % 4 + 1;
    if (kn > 40 || kn < -40)
      kn %= 41;
    l.known_term = smt::rational(kn, kd);
    return l;
  }
  void observe()
  {
    std::string s;
    for (size_t i = 1; i < bl.size(); ++i)
      s += std::to_string(sat->value(bl[i]));
    log->ev(s);
    for (auto x : xs)
      log->ev("x" + std::to_string(x) + " " + rs(lra->value(x)) + " [" + rs(lra->lb(x)) + "," + rs(lra->ub(x)) + "]");
    log->ev("level " + std::to_string(sat->decision_level()));
    if (g_debug)
    {
      for (auto &tr : lra->tableau)
        g_debug_lines.push_back("tab@op" + std::to_string(g_ops_done) + " x" + std::to_string(tr.first) + " = " + to_string(tr.second->l));
      for (size_t v = 0; v < lra->t_watches.size(); ++v)
      {
        std::string w;
        for (auto *r : lra->t_watches[v])
          w += " x" + std::to_string(r->x) + "@" + sim::hex64(reinterpret_cast<uint64_t>(r)).substr(8);
        g_debug_lines.push_back("watch@op" + std::to_string(g_ops_done) + " x" + std::to_string(v) + ":" + w);
      }
    }
  }
  // structural oracle (engine compiled with -fno-access-control): after every call the watch lists are exactly the
  // transpose of the tableau rows. Returns a description of the first inconsistency, or "".
  std::string watches()
  {
    for (auto &tr : lra->tableau)
    {
      if (tr.second->x != tr.first)
        return "tableau[x" + std::to_string(tr.first) + "] is the row of x" + std::to_string(tr.second->x);
      for (auto &t : tr.second->l.vars)
      {
        if (t.second == smt::rational::ZERO)
          return "row of x" + std::to_string(tr.first) + " keeps a zero coefficient for x" + std::to_string(t.first);
        if (!lra->t_watches[t.first].count(tr.second))
          return "row of x" + std::to_string(tr.first) + " mentions x" + std::to_string(t.first) + " but is not in its watch list";
      }
    }
    for (size_t v = 0; v < lra->t_watches.size(); ++v)
      for (auto *r : lra->t_watches[v])
      {
        auto it = lra->tableau.find(r->x);
        if (it == lra->tableau.end() || it->second != r)
          return "watch list of x" + std::to_string(v) + " holds a row that is not in the tableau";
        if (!r->l.vars.count(v))
          return "watch list of x" + std::to_string(v) + " holds the row of x" + std::to_string(r->x) + " which does not mention it";
      }
    return "";
  }
  void res(const char *what, bool r)
  {
    log->ev(std::string(what) + (r ? " true" : " false"));
    if (!r && sat->root_level() && std::string(what) != "check")
      dead = true;
  }
  void exec(const Op &op)
  {
    const std::string &n = op.name;
    if (n == "bvar")
    {
      if (sat->root_level())
        bl.push_back(sat->new_var());
    }
    else if (n == "clause")
    {
      if (!sat->root_level())
        return;
      size_t pos = 0;
      long k = std::labs(op.arg(pos++)) % 10;
      std::vector<lit> ls;
      for (long i = 0; i < k; ++i)
      {
        long s = op.arg(pos++), j = op.arg(pos++);
        ls.push_back(ref(s, j));
      }
      if (ls.empty())
        return;
      res("clause", sat->new_clause(ls));
    }
    else if (n == "lvar")
    {
      if (sat->root_level())
        xs.push_back(lra->new_var());
    }
    else if (n == "lder")
    {
      if (!sat->root_level() || xs.empty())
        return;
      size_t pos = 0;
      smt::lin l = plin(op, pos);
      if (l.vars.empty())
        return;
      smt::var v = lra->new_var(l);
      if (std::find(xs.begin(), xs.end(), v) == xs.end())
        xs.push_back(v);
    }
    else if (n == "lrel")
    {
      if (!sat->root_level() || xs.empty())
        return;
      size_t pos = 1;
      long rel = (op.arg(0) % 5 + 5) % 5;
      smt::lin l = plin(op, pos), r = plin(op, pos);
      lit p;
      switch (rel)
      {
      case 0:
        p = lra->new_lt(l, r);
        break;
      case 1:
        p = lra->new_leq(l, r);
        break;
      case 2:
        p = lra->new_eq(l, r);
        break;
      case 3:
        p = lra->new_geq(l, r);
        break;
      default:
        p = lra->new_gt(l, r);
        break;
      }
      log->ev("lrel -> " + to_string(p));
      if (variable(p) != smt::FALSE_var && std::find(bl.begin(), bl.end(), variable(p)) == bl.end())
        bl.push_back(variable(p));
    }
    else if (n == "prop")
      res("prop", sat->propagate());
    else if (n == "simp")
    {
      if (sat->root_level())
        res("simp", sat->simplify_db());
    }
    else if (n == "assume")
    {
      if (sat->root_level() && !sat->propagate())
      {
        res("prop", false);
        return;
      }
      std::vector<lit> und;
      for (size_t i = 1; i < bl.size(); ++i)
        if (sat->value(bl[i]) == smt::Undefined)
          und.push_back(lit(bl[i]));
      if (und.empty())
        return;
      lit p = und[static_cast<size_t>(std::labs(op.arg(1))) % und.size()];
      if (!(op.arg(0) & 1))
        p = !p;
      res("assume", sat->assume(p));
    }
    else if (n == "pop")
    {
      if (!sat->root_level())
        sat->pop();
    }
    else if (n == "popto")
    {
      if (sat->root_level())
        return;
      size_t t = static_cast<size_t>(std::labs(op.arg(0))) % (sat->decision_level() + 1);
      while (sat->decision_level() > t)
        sat->pop();
    }
    else if (n == "next")
    {
      if (!sat->root_level())
        res("next", sat->next());
    }
    else if (n == "guard")
    { // a literal of the simulated client (the executor's xi): decided only by cbound, never offered to the other ops
      if (sat->root_level())
        guards.push_back({sat->new_var(), false, 0, 0, smt::inf_rational()});
    }
    else if (n == "cbound")
    { // the client decides its guard and imposes a bound directly (set_lb / set_ub / set with the guard as reason); a conflict found
      // outside propagation goes to backtrack_analyze_and_backjump. Bounding a variable defined by new_var(lin) makes its row - the
      // only kind of row with a constant - leave the basis in a later pivot
      if (guards.empty() || xs.empty())
        return;
      if (sat->root_level() && !sat->propagate())
      {
        res("prop", false);
        return;
      }
      Guard &gd = guards[static_cast<size_t>(std::labs(op.arg(0))) % guards.size()];
      if (sat->value(gd.g) != smt::Undefined)
        return;
      if (!gd.defined)
      {
        const size_t xi = static_cast<size_t>(std::labs(op.arg(1)));
        gd.x = xs[xi >= 1000 ? xs.size() - 1 - (xi - 1000) % xs.size() : xi % xs.size()];
        gd.kind = static_cast<int>(std::labs(op.arg(2)) % 3);
        smt::rational q(op.arg(3), std::labs(op.arg(4)) % 4 + 1);
        if (std::labs(op.arg(6)) % 4 >= 2)
          q += lra->value(gd.x).get_rational();
        const long strict = gd.kind == 2 ? 0 : std::labs(op.arg(5)) % 2;
        gd.v = smt::inf_rational(q, smt::rational(gd.kind == 0 ? strict : -strict));
        gd.defined = true;
      }
      const lit g(gd.g);
      const bool r0 = sat->assume(g);
      res("cbound.assume", r0);
      if (!r0 || sat->value(g) != smt::True)
        return;
      const bool r = gd.kind == 0 ? lra->set_lb(gd.x, gd.v, g) : (gd.kind == 1 ? lra->set_ub(gd.x, gd.v, g) : lra->set(gd.x, gd.v, g));
      log->ev(std::string("cbound x") + std::to_string(gd.x) + " kind " + std::to_string(gd.kind) + " " + rs(gd.v) + (r ? " accepted" : " conflict"));
      res("cbound.follow_up", r ? sat->propagate() : lra->backtrack_analyze_and_backjump());
    }
    else if (n == "check")
    {
      if (sat->root_level() && !sat->propagate())
      {
        res("prop", false);
        return;
      }
      size_t pos = 0;
      long k = std::labs(op.arg(pos++)) % 10;
      std::vector<lit> ls;
      for (long i = 0; i < k && i < 4; ++i)
      {
        long s = op.arg(pos++), j = op.arg(pos++);
        ls.push_back(ref(s, j));
      }
      if (ls.empty())
        return;
      bool r = sat->check(ls);
      log->ev(std::string("check ") + (r ? "true" : "false"));
      if (!r && sat->root_level())
      { // may have turned out inconsistent at root: probe once, a second false ends the history
        if (!sat->propagate())
          dead = true;
      }
    }
  }
};

static void run_cmd(const sim::Cmd &c, sim::Out &out)
{
  g_out = &out;
  par::on_fatal = fatal_hook;
  const uint64_t seed = c.u64("seed", 1);
  const uint64_t sched = c.u64("sched", 0);
  const int policy = static_cast<int>(c.num("policy", 0));
  const int nprocs = static_cast<int>(c.num("nprocs", 3));
  const int spur = static_cast<int>(c.num("spurious", 20));
  const std::string expect = c.str("expect", "");
  std::vector<Op> ops;
  if (c.verb == "run" || c.verb == "gen")
  {
    net::RunParams rp;
    ops = net::generate(seed, "C20", rp);
    // denser tableaux: a second helping of relations over the same variables
    sim::Rng g = sim::Rng(seed).derive("par-extra");
    std::vector<Op> extra;
    for (int i = 0; i < 6; ++i)
      extra.push_back(net::gen_op(g, "lrel", 6));
    size_t at = 0;
    while (at < ops.size() && ops[at].name != "assume" && ops[at].name != "check")
      ++at;
    ops.insert(ops.begin() + static_cast<long>(at), extra.begin(), extra.end());
  }
  else
    for (auto &l : c.body)
    {
      Op op;
      if (Op::parse(l, op))
        ops.push_back(op);
    }
  uint64_t sig = sim::fnv64("par");
  for (auto &op : ops)
    sig = sim::fnv64(op.text(), sig);
  g_tail = sim::hex64(sim::mix64(sig ^ sched ^ (static_cast<uint64_t>(policy) << 40) ^ (static_cast<uint64_t>(nprocs) << 48)));
  out.line("P seed=" + std::to_string(seed) + " sched=" + std::to_string(sched) + " policy=" + std::to_string(policy) + " nprocs=" + std::to_string(nprocs) + " spurious=" + std::to_string(spur) + (expect.empty() ? "" : " expect=" + expect));
  if (c.verb == "gen" || c.num("emit_ops", 0))
    for (auto &op : ops)
      out.line("O " + op.text());
  if (c.verb == "gen")
  {
    out.line("R status=OK hash=0 ops=" + std::to_string(ops.size()) + " done=0 nontrivial=0 sig=0");
    return;
  }
  out.flush();
  g_log.keep = g_debug = c.num("verbose", 0) != 0;
  g_log2.keep = g_log.keep;
  int clients = static_cast<int>(c.num("clients", 1));
#ifndef PARALLELIZE
  clients = 1;
#endif
  g_clients = clients;
  smt::verif::on_row_alloc = row_alloc;
  smt::verif::on_row_free = row_free;
  sim::layout::start(seed, false, 0);
#ifdef PARALLELIZE
  par::sched_start(sim::mix64(seed ^ (sched * 0x9E3779B97F4A7C15ULL)), policy, nprocs, policy == 0 ? 0 : spur);
#endif
  sim_layout_free_hook = par::sched_forget;
  smt::verif::on_record = hook;
  // one caller thread = one network of its own running the whole history; with `clients=2` a second caller thread does the same
  // at the same time (its rows come from a second fixed-address pool, so that row addresses stay a function of each network's own
  // sequence of row creations): nothing the library keeps per process may make the two influence each other
  std::string struct2;
  auto run_history = [&ops](Interp &in, sim::EventLog &lg, std::string &structv, bool primary)
  {
    in.log = &lg;
    in.sat = new smt::sat_core();
    if (!primary)
      g_sat2 = in.sat;
    in.lra = new smt::lra_theory(*in.sat);
    for (size_t i = 0; i < ops.size() && !in.dead; ++i)
    {
      lg.ev("op " + ops[i].text());
      if (primary && getenv("DBG_LRA"))
        fprintf(stderr, "op %zu %s\n", i, ops[i].text().c_str());
      in.exec(ops[i]);
      in.observe();
      if (structv.empty())
      {
        structv = in.watches();
        if (!structv.empty())
          structv = std::string(primary ? "" : "[second client] ") + "after op " + std::to_string(i) + " (" + ops[i].text() + "): " + structv;
      }
      if (primary)
        g_ops_done = static_cast<long>(i) + 1;
    }
  };
  Interp in, in2;
  if (clients >= 2)
  {
    std::thread second([&]()
                       {
                         tl_client = 1;
                         run_history(in2, g_log2, struct2, false);
                       });
    run_history(in, g_log, g_struct, true);
    second.join();
    if (g_struct.empty())
      g_struct = struct2;
  }
  else
    run_history(in, g_log, g_struct, true);
  par::sched_stop();
  sim::layout::stop();
  std::sort(g_clauses.begin(), g_clauses.end());
  for (auto &s : g_clauses)
    g_log.ev("clause " + s);
  std::string h = sim::hex64(g_log.hash());
  std::string h2 = h;
  if (clients >= 2)
  {
    std::sort(g_clauses2.begin(), g_clauses2.end());
    for (auto &s : g_clauses2)
      g_log2.ev("clause " + s);
    h2 = sim::hex64(g_log2.hash());
  }
  if (c.num("verbose", 0))
  {
    for (auto &l : g_log.lines)
      out.line("T " + l);
    for (auto &l : g_debug_lines)
      out.line("T " + l);
  }
  if (!g_struct.empty())
    emit_result("VIOL", "V oracle=PAR class=PAR.watch_lists_inconsistent op=0 msg=" + g_struct);
  else if (h2 != h)
    emit_result("VIOL", "V oracle=PAR class=PAR.clients_influence_each_other op=0 msg=two caller threads ran the same history at the same time, each on a network of its own, under schedule " + std::to_string(sched) + " (policy " + std::to_string(policy) + ", " + std::to_string(nprocs) + " workers each): their observation logs differ (" + h + " / " + h2 + ")");
  else if (!expect.empty() && expect != h)
    emit_result("VIOL", "V oracle=PAR class=PAR.differs_from_canonical_schedule op=0 msg=under schedule " + std::to_string(sched) + " (policy " + std::to_string(policy) + ", " + std::to_string(nprocs) + " workers) the observation log (verdicts, literal values, values and bounds of every variable, set of recorded clauses) has hash " + h + " but the canonical schedule gives " + expect);
  else
    emit_result("OK", "");
}

int main(int argc, char **argv)
{
  return sim::worker_main(argc, argv, run_cmd, 20000);
}
