// PAR engine, part 1: deterministic thread scheduler by pthread interposition + happens-before race detector.
//
// The engine executable defines pthread_mutex_lock/unlock/trylock, pthread_cond_wait/timedwait/signal/broadcast,
// pthread_create/join and get_nprocs; the dynamic linker resolves the calls made by libconcurrent.so, libsmt.so and
// libstdc++.so to these definitions. Threads are real pthreads but exactly one holds the baton; all others are parked on
// private semaphores. Every intercepted call is a scheduling point: a seeded PRNG (or the canonical "never preempt,
// lowest id first" policy) picks who runs next. Mutexes and condition variables are simulated in side tables, the real
// primitives are never blocked on. Legal-but-unusual behaviours injected as faults: spurious wake-ups of cond_wait,
// a new worker not scheduled for a long time, a woken waiter losing the race for the mutex.
// The whole PARALLELIZE build is compiled with -fsanitize=thread but linked without the TSan runtime; the __tsan_*
// callbacks below feed a vector-clock detector whose happens-before edges come only from the simulated sync objects.
#pragma once
#include "../core/prng.h"
#include <cstdint>
#include <string>
#include <vector>

namespace par
{
  struct Report
  {
    bool deadlock = false, race = false, step_cap = false;
    std::string detail;
  };
  void sched_start(uint64_t seed, int policy, int nprocs, int spurious_permille); // policy 0 canonical, 1 random, 2 pct
  void sched_stop();
  bool sched_on();
  const Report &sched_report();
  uint64_t sched_hash();      // hash of the (thread, sync-op) decision sequence
  long sched_steps();
  long sched_switches();
  long sched_max_inflight();  // max number of worker threads simultaneously busy (runnable or contending for a mutex) at an instrumented access
  long sched_workers_that_ran(); // distinct worker threads that executed instrumented code
  long sched_counter(const char *name);
  void sched_forget(void *p, size_t n); // memory freed: drop the shadow cells
  extern void (*on_fatal)();
} // namespace par
