#include "sched.h"
#include <dlfcn.h>
#include <pthread.h>
#include <semaphore.h>
#include <sys/mman.h>
#include <sys/sysinfo.h>
#include <unistd.h>
#include <cstdio>
#include <cstdlib>
#include <cstring>
#include <cerrno>

namespace par
{
  void (*on_fatal)() = nullptr;
}

namespace
{
  using par::Report;
  constexpr int MAXT = 16;
  enum State
  {
    FREE,
    RUNNABLE,
    B_MUTEX,
    B_COND,
    B_JOIN,
    FINISHED
  };
  struct Thread
  {
    pthread_t tid;
    sem_t sem;
    int state = FREE;
    void *blocked_on = nullptr;
    int join_target = -1;
    void *(*fn)(void *) = nullptr;
    void *arg = nullptr;
    void *ret = nullptr;
    long not_before = 0; // fault: a freshly created worker is not scheduled before this step
    bool spurious = false;
    uint32_t vc[MAXT];
    uintptr_t stack[64];
    int depth = 0;
  };
  Thread T[MAXT];
  int nthreads = 0;
  thread_local int tl_id = -1;
  bool g_on = false;
  sim::Rng g_rng(1);
  int g_policy = 0, g_nprocs = 2, g_spur = 0;
  long g_steps = 0, g_switches = 0;
  uint64_t g_hash = 1469598103934665603ULL;
  Report g_report;
  long c_lock = 0, c_unlock = 0, c_wait = 0, c_signal = 0, c_bcast = 0, c_create = 0, c_spurious = 0, c_contended = 0, c_late = 0, c_races_checked = 0;
  long g_max_inflight = 0;
  unsigned g_worker_touched = 0;

  // ---- real functions ----
  int (*r_mutex_lock)(pthread_mutex_t *) = nullptr;
  int (*r_mutex_unlock)(pthread_mutex_t *) = nullptr;
  int (*r_mutex_trylock)(pthread_mutex_t *) = nullptr;
  int (*r_cond_wait)(pthread_cond_t *, pthread_mutex_t *) = nullptr;
  int (*r_cond_timedwait)(pthread_cond_t *, pthread_mutex_t *, const struct timespec *) = nullptr;
  int (*r_cond_signal)(pthread_cond_t *) = nullptr;
  int (*r_cond_broadcast)(pthread_cond_t *) = nullptr;
  int (*r_create)(pthread_t *, const pthread_attr_t *, void *(*)(void *), void *) = nullptr;
  int (*r_join)(pthread_t, void **) = nullptr;
  bool g_resolved = false;
  void resolve()
  {
    if (g_resolved)
      return;
    g_resolved = true;
    r_mutex_lock = reinterpret_cast<decltype(r_mutex_lock)>(dlsym(RTLD_NEXT, "pthread_mutex_lock"));
    r_mutex_unlock = reinterpret_cast<decltype(r_mutex_unlock)>(dlsym(RTLD_NEXT, "pthread_mutex_unlock"));
    r_mutex_trylock = reinterpret_cast<decltype(r_mutex_trylock)>(dlsym(RTLD_NEXT, "pthread_mutex_trylock"));
    r_cond_wait = reinterpret_cast<decltype(r_cond_wait)>(dlvsym(RTLD_NEXT, "pthread_cond_wait", "GLIBC_2.3.2"));
    r_cond_timedwait = reinterpret_cast<decltype(r_cond_timedwait)>(dlvsym(RTLD_NEXT, "pthread_cond_timedwait", "GLIBC_2.3.2"));
    r_cond_signal = reinterpret_cast<decltype(r_cond_signal)>(dlvsym(RTLD_NEXT, "pthread_cond_signal", "GLIBC_2.3.2"));
    r_cond_broadcast = reinterpret_cast<decltype(r_cond_broadcast)>(dlvsym(RTLD_NEXT, "pthread_cond_broadcast", "GLIBC_2.3.2"));
    r_create = reinterpret_cast<decltype(r_create)>(dlsym(RTLD_NEXT, "pthread_create"));
    r_join = reinterpret_cast<decltype(r_join)>(dlsym(RTLD_NEXT, "pthread_join"));
  }
  inline bool managed() { return g_on && tl_id >= 0; }

  // ---- side tables ----
  struct Mutex
  {
    void *key = nullptr;
    int owner = -1;
    int count = 0;
    uint32_t vc[MAXT];
  };
  constexpr int NM = 4096;
  Mutex M[NM];
  Mutex &mutex_of(void *k)
  {
    size_t h = (reinterpret_cast<uintptr_t>(k) >> 3) % NM;
    for (int i = 0; i < NM; ++i)
    {
      Mutex &m = M[(h + i) % NM];
      if (m.key == k)
        return m;
      if (!m.key)
      {
        m.key = k;
        m.owner = -1;
        m.count = 0;
        memset(m.vc, 0, sizeof m.vc);
        return m;
      }
    }
    fprintf(stderr, "par: mutex table full\n");
    abort();
  }

  void fatal(const char *what, const std::string &detail)
  {
    if (!strcmp(what, "deadlock"))
      g_report.deadlock = true;
    else if (!strcmp(what, "race"))
      g_report.race = true;
    else
      g_report.step_cap = true;
    g_report.detail = detail;
    g_on = false;
    if (par::on_fatal)
      par::on_fatal();
    _exit(0);
  }

  void note(int op, void *obj)
  {
    uint64_t x = (static_cast<uint64_t>(tl_id) << 8) | static_cast<uint64_t>(op);
    (void)obj;
    g_hash = (g_hash ^ x) * 1099511628211ULL;
    if (++g_steps > 400000)
      fatal("steps", "scheduler step cap reached");
  }

  std::string describe()
  {
    std::string s;
    for (int i = 0; i < nthreads; ++i)
    {
      static const char *n[] = {"free", "runnable", "blocked-on-mutex", "blocked-on-cond", "blocked-on-join", "finished"};
      s += " T" + std::to_string(i) + ":" + n[T[i].state];
    }
    return s;
  }

  int pick(bool self_runnable)
  {
    int cand[MAXT], n = 0;
    for (int i = 0; i < nthreads; ++i)
      if (T[i].state == RUNNABLE && (i == tl_id ? self_runnable : true) && (T[i].not_before <= g_steps || g_policy == 0))
        cand[n++] = i;
    if (n == 0)
    { // late workers become eligible if nothing else can run
      for (int i = 0; i < nthreads; ++i)
        if (T[i].state == RUNNABLE && (i == tl_id ? self_runnable : true))
          cand[n++] = i;
    }
    if (n == 0)
      return -1;
    if (g_policy == 0)
    { // canonical: never preempt, lowest id first
      if (self_runnable && T[tl_id].state == RUNNABLE)
        return tl_id;
      return cand[0];
    }
    if (g_policy == 2 && self_runnable && T[tl_id].state == RUNNABLE && !g_rng.chance(1, 4))
      return tl_id;
    return cand[g_rng.below(static_cast<uint64_t>(n))];
  }

  void run_other_or_self(bool self_runnable)
  {
    // fault: spurious wake-up of some condition waiter
    if (g_spur > 0 && g_policy != 0 && g_rng.below(1000) < static_cast<uint64_t>(g_spur))
    {
      int w[MAXT], n = 0;
      for (int i = 0; i < nthreads; ++i)
        if (T[i].state == B_COND)
          w[n++] = i;
      if (n)
      {
        int v = w[g_rng.below(static_cast<uint64_t>(n))];
        T[v].state = RUNNABLE;
        T[v].spurious = true;
        ++c_spurious;
      }
    }
    int nx = pick(self_runnable);
    if (nx < 0)
      fatal("deadlock", "no runnable thread:" + describe());
    if (nx != tl_id)
    {
      ++g_switches;
      const int me = tl_id;
      sem_post(&T[nx].sem);
      sem_wait(&T[me].sem);
    }
  }
  inline void yield_point() { run_other_or_self(true); }
  inline void block() { run_other_or_self(false); }

  inline void vc_join(uint32_t *a, const uint32_t *b)
  {
    for (int i = 0; i < MAXT; ++i)
      if (b[i] > a[i])
        a[i] = b[i];
  }

  void do_lock(pthread_mutex_t *mp)
  {
    Mutex &m = mutex_of(mp);
    bool contended = false;
    for (;;)
    {
      if (m.owner == -1)
      {
        m.owner = tl_id;
        m.count = 1;
        vc_join(T[tl_id].vc, m.vc);
        if (contended)
          ++c_contended;
        return;
      }
      if (m.owner == tl_id)
      {
        ++m.count;
        return;
      }
      contended = true;
      T[tl_id].state = B_MUTEX;
      T[tl_id].blocked_on = mp;
      block();
    }
  }
  void do_unlock(pthread_mutex_t *mp)
  {
    Mutex &m = mutex_of(mp);
    if (m.owner != tl_id)
      return;
    if (--m.count > 0)
      return;
    m.owner = -1;
    vc_join(m.vc, T[tl_id].vc);
    T[tl_id].vc[tl_id]++;
    for (int i = 0; i < nthreads; ++i)
      if (T[i].state == B_MUTEX && T[i].blocked_on == mp)
        T[i].state = RUNNABLE; // they re-contend when scheduled (a woken waiter may lose the race again)
  }

  void *trampoline(void *p)
  {
    int id = static_cast<int>(reinterpret_cast<intptr_t>(p));
    tl_id = id;
    sem_wait(&T[id].sem); // parked until the scheduler hands over the baton
    void *r = T[id].fn(T[id].arg);
    T[id].ret = r;
    T[id].state = FINISHED;
    T[id].vc[id]++;
    for (int i = 0; i < nthreads; ++i)
      if (T[i].state == B_JOIN && T[i].join_target == id)
        T[i].state = RUNNABLE;
    note(9, nullptr);
    if (g_on)
    {
      int nx = pick(false);
      if (nx < 0)
        fatal("deadlock", "thread exit with nobody runnable:" + describe());
      sem_post(&T[nx].sem);
    }
    return r;
  }

  // ---- shadow memory for the race detector ----
  struct Cell
  {
    uintptr_t key; // address >> 3, 0 = empty, 1 = tombstone
    uint32_t wclk;
    int16_t wtid;
    uint16_t pad;
    uintptr_t wpc;
    uint32_t rclk[MAXT];
  };
  constexpr size_t NC = 1u << 19;
  Cell *C = nullptr;
  size_t g_cells = 0;
  Cell *cell(uintptr_t key, bool create)
  {
    size_t h = (key * 0x9E3779B97F4A7C15ULL) >> 45; // 19 bits
    Cell *tomb = nullptr;
    for (size_t i = 0; i < NC; ++i)
    {
      Cell &c = C[(h + i) & (NC - 1)];
      if (c.key == key)
        return &c;
      if (c.key == 1 && !tomb)
        tomb = &c;
      if (c.key == 0)
      {
        if (!create)
          return nullptr;
        Cell *n = tomb ? tomb : &c;
        if (g_cells > NC / 2)
          return nullptr; // table half full: stop creating (counted conservatively, no report from missing cells)
        ++g_cells;
        memset(n, 0, sizeof *n);
        n->key = key;
        n->wtid = -1;
        return n;
      }
    }
    return nullptr;
  }
  std::string where(uintptr_t pc)
  {
    Dl_info di;
    if (pc && dladdr(reinterpret_cast<void *>(pc), &di) && di.dli_sname)
      return di.dli_sname;
    return "?";
  }
  std::string stack_of(int t)
  {
    std::string s;
    for (int i = T[t].depth - 1, k = 0; i >= 0 && k < 4; --i, ++k)
      s += (k ? " < " : "") + where(T[t].stack[i]);
    return s;
  }
  void access(void *addr, size_t n, bool write, uintptr_t pc)
  {
    if (!managed() || !C)
      return;
    const int t = tl_id;
    int busy = 0;
    for (int i = 1; i < nthreads; ++i)
      if (T[i].state == RUNNABLE || T[i].state == B_MUTEX)
        ++busy;
    if (busy > g_max_inflight)
      g_max_inflight = busy;
    if (t > 0)
      g_worker_touched |= 1u << t;
    const bool creator = t != 0 || busy > 0;
    uintptr_t a = reinterpret_cast<uintptr_t>(addr);
    for (uintptr_t k = a >> 3; k <= (a + (n ? n - 1 : 0)) >> 3; ++k)
    {
      Cell *c = cell(k, creator);
      if (!c)
        continue;
      ++c_races_checked;
      const uint32_t *vc = T[t].vc;
      if (c->wtid >= 0 && c->wtid != t && c->wclk > vc[c->wtid])
        fatal("race", std::string(write ? "write" : "read") + " by T" + std::to_string(t) + " [" + stack_of(t) + "] races with an earlier write by T" + std::to_string(c->wtid) + " [" + where(c->wpc) + "] on the same word (no happens-before through any lock, create or join)");
      if (write)
      {
        for (int r = 0; r < nthreads; ++r)
          if (r != t && c->rclk[r] > vc[r])
            fatal("race", "write by T" + std::to_string(t) + " [" + stack_of(t) + "] races with an earlier read by T" + std::to_string(r) + " on the same word (no happens-before through any lock, create or join)");
        c->wtid = static_cast<int16_t>(t);
        c->wclk = vc[t] ? vc[t] : 1;
        c->wpc = pc;
      }
      else
        c->rclk[t] = vc[t] ? vc[t] : 1;
    }
  }
} // namespace

namespace par
{
  void sched_start(uint64_t seed, int policy, int nprocs, int spurious_permille)
  {
    resolve();
    g_rng = sim::Rng(seed);
    g_policy = policy;
    g_nprocs = nprocs;
    g_spur = spurious_permille;
    nthreads = 1;
    tl_id = 0;
    T[0].state = RUNNABLE;
    T[0].tid = pthread_self();
    sem_init(&T[0].sem, 0, 0);
    memset(T[0].vc, 0, sizeof T[0].vc);
    T[0].vc[0] = 1;
    if (!C)
      C = static_cast<Cell *>(mmap(nullptr, NC * sizeof(Cell), PROT_READ | PROT_WRITE, MAP_PRIVATE | MAP_ANONYMOUS | MAP_NORESERVE, -1, 0));
    g_on = true;
  }
  void sched_stop() { g_on = false; }
  bool sched_on() { return g_on; }
  const Report &sched_report() { return g_report; }
  uint64_t sched_hash() { return g_hash; }
  long sched_steps() { return g_steps; }
  long sched_switches() { return g_switches; }
  long sched_max_inflight() { return g_max_inflight; }
  long sched_counter(const char *n)
  {
    if (!strcmp(n, "lock"))
      return c_lock;
    if (!strcmp(n, "unlock"))
      return c_unlock;
    if (!strcmp(n, "cond_wait"))
      return c_wait;
    if (!strcmp(n, "signal"))
      return c_signal;
    if (!strcmp(n, "broadcast"))
      return c_bcast;
    if (!strcmp(n, "create"))
      return c_create;
    if (!strcmp(n, "spurious_wakeups"))
      return c_spurious;
    if (!strcmp(n, "contended_locks"))
      return c_contended;
    if (!strcmp(n, "late_workers"))
      return c_late;
    if (!strcmp(n, "accesses_checked"))
      return c_races_checked;
    if (!strcmp(n, "shadow_cells"))
      return static_cast<long>(g_cells);
    return 0;
  }
  void sched_forget(void *p, size_t n)
  {
    if (!C || !g_cells)
      return;
    uintptr_t a = reinterpret_cast<uintptr_t>(p);
    if (n > (1u << 16))
      n = 1u << 16;
    for (uintptr_t k = a >> 3; k <= (a + n - 1) >> 3; ++k)
      if (Cell *c = cell(k, false))
      {
        c->key = 1;
        --g_cells;
      }
  }
  long sched_workers_that_ran()
  {
    long n = 0;
    for (int i = 1; i < MAXT; ++i)
      n += (g_worker_touched >> i) & 1;
    return n;
  }
} // namespace par

// ---------------------------------------------------------------------------------------------
// interposed entry points
// ---------------------------------------------------------------------------------------------
extern "C"
{
  int pthread_mutex_lock(pthread_mutex_t *m)
  {
    resolve();
    if (!managed())
      return r_mutex_lock(m);
    ++c_lock;
    note(1, m);
    yield_point();
    do_lock(m);
    return 0;
  }
  int pthread_mutex_trylock(pthread_mutex_t *m)
  {
    resolve();
    if (!managed())
      return r_mutex_trylock(m);
    note(2, m);
    yield_point();
    Mutex &mm = mutex_of(m);
    if (mm.owner == -1 || mm.owner == tl_id)
    {
      do_lock(m);
      return 0;
    }
    return EBUSY;
  }
  int pthread_mutex_unlock(pthread_mutex_t *m)
  {
    resolve();
    if (!managed())
      return r_mutex_unlock(m);
    ++c_unlock;
    note(3, m);
    do_unlock(m);
    yield_point();
    return 0;
  }
  int pthread_cond_wait(pthread_cond_t *c, pthread_mutex_t *m)
  {
    resolve();
    if (!managed())
      return r_cond_wait(c, m);
    ++c_wait;
    note(4, c);
    Mutex &mm = mutex_of(m);
    int saved = mm.count;
    mm.count = 1;
    do_unlock(m);
    T[tl_id].state = B_COND;
    T[tl_id].blocked_on = c;
    T[tl_id].spurious = false;
    block();
    do_lock(m);
    mutex_of(m).count = saved;
    return 0;
  }
  int pthread_cond_timedwait(pthread_cond_t *c, pthread_mutex_t *m, const struct timespec *ts)
  {
    resolve();
    if (!managed())
      return r_cond_timedwait(c, m, ts);
    return pthread_cond_wait(c, m);
  }
  int pthread_cond_signal(pthread_cond_t *c)
  {
    resolve();
    if (!managed())
      return r_cond_signal(c);
    ++c_signal;
    note(5, c);
    int w[MAXT], n = 0;
    for (int i = 0; i < nthreads; ++i)
      if (T[i].state == B_COND && T[i].blocked_on == c)
        w[n++] = i;
    if (n)
      T[w[g_policy == 0 ? 0 : g_rng.below(static_cast<uint64_t>(n))]].state = RUNNABLE; // which waiter wakes is unspecified
    yield_point();
    return 0;
  }
  int pthread_cond_broadcast(pthread_cond_t *c)
  {
    resolve();
    if (!managed())
      return r_cond_broadcast(c);
    ++c_bcast;
    note(6, c);
    for (int i = 0; i < nthreads; ++i)
      if (T[i].state == B_COND && T[i].blocked_on == c)
        T[i].state = RUNNABLE;
    yield_point();
    return 0;
  }
  int pthread_create(pthread_t *th, const pthread_attr_t *attr, void *(*fn)(void *), void *arg)
  {
    resolve();
    if (!managed())
      return r_create(th, attr, fn, arg);
    if (nthreads >= MAXT)
      return EAGAIN;
    ++c_create;
    note(7, nullptr);
    int id = nthreads++;
    T[id].fn = fn;
    T[id].arg = arg;
    T[id].state = RUNNABLE;
    T[id].depth = 0;
    sem_init(&T[id].sem, 0, 0);
    memcpy(T[id].vc, T[tl_id].vc, sizeof T[id].vc);
    T[id].vc[id] = 1;
    T[tl_id].vc[tl_id]++;
    if (g_policy != 0 && g_rng.chance(1, 3))
    { // fault: the new worker is not scheduled until much later
      T[id].not_before = g_steps + static_cast<long>(g_rng.below(300));
      ++c_late;
    }
    int rc = r_create(th, attr, trampoline, reinterpret_cast<void *>(static_cast<intptr_t>(id)));
    T[id].tid = *th;
    yield_point();
    return rc;
  }
  int pthread_join(pthread_t th, void **ret)
  {
    resolve();
    if (!managed())
      return r_join(th, ret);
    note(8, nullptr);
    int target = -1;
    for (int i = 0; i < nthreads; ++i)
      if (pthread_equal(T[i].tid, th))
        target = i;
    if (target < 0)
      return r_join(th, ret);
    while (T[target].state != FINISHED)
    {
      T[tl_id].state = B_JOIN;
      T[tl_id].join_target = target;
      block();
    }
    vc_join(T[tl_id].vc, T[target].vc);
    return r_join(th, ret);
  }
  int get_nprocs(void)
  {
    if (g_on)
      return g_nprocs;
    long n = sysconf(_SC_NPROCESSORS_ONLN);
    return n > 0 ? static_cast<int>(n) : 1;
  }

  // ---- ThreadSanitizer instrumentation callbacks (the TSan runtime is not linked) ----
  void __tsan_init() {}
  void __tsan_func_entry(void *pc)
  {
    if (managed() && T[tl_id].depth < 64)
      T[tl_id].stack[T[tl_id].depth++] = reinterpret_cast<uintptr_t>(pc);
  }
  void __tsan_func_exit()
  {
    if (managed() && T[tl_id].depth > 0)
      --T[tl_id].depth;
  }
#define PC reinterpret_cast<uintptr_t>(__builtin_return_address(0))
  void __tsan_read1(void *a) { access(a, 1, false, PC); }
  void __tsan_read2(void *a) { access(a, 2, false, PC); }
  void __tsan_read4(void *a) { access(a, 4, false, PC); }
  void __tsan_read8(void *a) { access(a, 8, false, PC); }
  void __tsan_read16(void *a) { access(a, 16, false, PC); }
  void __tsan_write1(void *a) { access(a, 1, true, PC); }
  void __tsan_write2(void *a) { access(a, 2, true, PC); }
  void __tsan_write4(void *a) { access(a, 4, true, PC); }
  void __tsan_write8(void *a) { access(a, 8, true, PC); }
  void __tsan_write16(void *a) { access(a, 16, true, PC); }
  void __tsan_unaligned_read2(void *a) { access(a, 2, false, PC); }
  void __tsan_unaligned_read4(void *a) { access(a, 4, false, PC); }
  void __tsan_unaligned_read8(void *a) { access(a, 8, false, PC); }
  void __tsan_unaligned_write2(void *a) { access(a, 2, true, PC); }
  void __tsan_unaligned_write4(void *a) { access(a, 4, true, PC); }
  void __tsan_unaligned_write8(void *a) { access(a, 8, true, PC); }
  void __tsan_read_range(void *a, unsigned long n) { access(a, n > 256 ? 256 : n, false, PC); }
  void __tsan_write_range(void *a, unsigned long n) { access(a, n > 256 ? 256 : n, true, PC); }
  void __tsan_vptr_update(void **a, void *) { access(a, 8, true, PC); }
  void __tsan_vptr_read(void **a) { access(a, 8, false, PC); }

  // atomics (what the compiler emits for std::atomic and for the guard of a function-local static): never a data race themselves;
  // a load acquires, a store releases, a read-modify-write does both - on a clock kept per address in the mutex side table
  static inline void atomic_hb(const volatile void *a, bool acq, bool rel)
  {
    if (!managed())
      return;
    Mutex &m = mutex_of(const_cast<void *>(a));
    if (acq)
      vc_join(T[tl_id].vc, m.vc);
    if (rel)
    {
      vc_join(m.vc, T[tl_id].vc);
      T[tl_id].vc[tl_id]++;
    }
  }
#define TSAN_ATOMICS(N, TY)                                                                                                       \
  TY __tsan_atomic##N##_load(const volatile TY *a, int)                                                                           \
  {                                                                                                                               \
    TY v = __atomic_load_n(a, __ATOMIC_SEQ_CST);                                                                                  \
    atomic_hb(a, true, false);                                                                                                    \
    return v;                                                                                                                     \
  }                                                                                                                               \
  void __tsan_atomic##N##_store(volatile TY *a, TY v, int)                                                                        \
  {                                                                                                                               \
    atomic_hb(a, false, true);                                                                                                    \
    __atomic_store_n(a, v, __ATOMIC_SEQ_CST);                                                                                     \
  }                                                                                                                               \
  TY __tsan_atomic##N##_exchange(volatile TY *a, TY v, int)                                                                       \
  {                                                                                                                               \
    atomic_hb(a, true, true);                                                                                                     \
    return __atomic_exchange_n(a, v, __ATOMIC_SEQ_CST);                                                                           \
  }                                                                                                                               \
  TY __tsan_atomic##N##_fetch_add(volatile TY *a, TY v, int)                                                                      \
  {                                                                                                                               \
    atomic_hb(a, true, true);                                                                                                     \
    return __atomic_fetch_add(a, v, __ATOMIC_SEQ_CST);                                                                            \
  }                                                                                                                               \
  TY __tsan_atomic##N##_fetch_sub(volatile TY *a, TY v, int)                                                                      \
  {                                                                                                                               \
    atomic_hb(a, true, true);                                                                                                     \
    return __atomic_fetch_sub(a, v, __ATOMIC_SEQ_CST);                                                                            \
  }                                                                                                                               \
  TY __tsan_atomic##N##_fetch_and(volatile TY *a, TY v, int)                                                                      \
  {                                                                                                                               \
    atomic_hb(a, true, true);                                                                                                     \
    return __atomic_fetch_and(a, v, __ATOMIC_SEQ_CST);                                                                            \
  }                                                                                                                               \
  TY __tsan_atomic##N##_fetch_or(volatile TY *a, TY v, int)                                                                       \
  {                                                                                                                               \
    atomic_hb(a, true, true);                                                                                                     \
    return __atomic_fetch_or(a, v, __ATOMIC_SEQ_CST);                                                                             \
  }                                                                                                                               \
  TY __tsan_atomic##N##_fetch_xor(volatile TY *a, TY v, int)                                                                      \
  {                                                                                                                               \
    atomic_hb(a, true, true);                                                                                                     \
    return __atomic_fetch_xor(a, v, __ATOMIC_SEQ_CST);                                                                            \
  }                                                                                                                               \
  TY __tsan_atomic##N##_fetch_nand(volatile TY *a, TY v, int)                                                                     \
  {                                                                                                                               \
    atomic_hb(a, true, true);                                                                                                     \
    return __atomic_fetch_nand(a, v, __ATOMIC_SEQ_CST);                                                                           \
  }                                                                                                                               \
  int __tsan_atomic##N##_compare_exchange_strong(volatile TY *a, TY *c, TY v, int, int)                                           \
  {                                                                                                                               \
    atomic_hb(a, true, true);                                                                                                     \
    return __atomic_compare_exchange_n(a, c, v, false, __ATOMIC_SEQ_CST, __ATOMIC_SEQ_CST);                                       \
  }                                                                                                                               \
  int __tsan_atomic##N##_compare_exchange_weak(volatile TY *a, TY *c, TY v, int, int)                                             \
  {                                                                                                                               \
    atomic_hb(a, true, true);                                                                                                     \
    return __atomic_compare_exchange_n(a, c, v, false, __ATOMIC_SEQ_CST, __ATOMIC_SEQ_CST);                                       \
  }                                                                                                                               \
  TY __tsan_atomic##N##_compare_exchange_val(volatile TY *a, TY c, TY v, int, int)                                                \
  {                                                                                                                               \
    atomic_hb(a, true, true);                                                                                                     \
    __atomic_compare_exchange_n(a, &c, v, false, __ATOMIC_SEQ_CST, __ATOMIC_SEQ_CST);                                             \
    return c;                                                                                                                     \
  }
  TSAN_ATOMICS(8, unsigned char)
  TSAN_ATOMICS(16, unsigned short)
  TSAN_ATOMICS(32, unsigned int)
  TSAN_ATOMICS(64, unsigned long)
  void __tsan_atomic_thread_fence(int) { __atomic_thread_fence(__ATOMIC_SEQ_CST); }
  void __tsan_atomic_signal_fence(int) {}
}
