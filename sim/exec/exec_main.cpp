// EXEC engine (C19): discrete-event simulation of plan execution. Real code: everything of PLAN plus
// ratio::executor. Stub: the client (our executor_listener) and the clock (a loop calling tick()).
// Time only advances by tick(); the seeded op list after the problem decides every delay request,
// failure notification and late requirement, attached to the callback / tick they hit.
//   run  <id> seed=N layout=L prop=C19
//   exec <id> layout=L prop=C19 upt=<units-per-tick index> body=K + ops
#include "../plan/build2.h"
#include "../plan/check2.h"
#include "../plan/gen.h"
#include "../core/worker.h"
#include "../core/layout.h"
#include "executor.h"
#include "executor_listener.h"
#include "core_listener.h"
#include <sstream>

using namespace plan;

static std::string one_line(std::string s)
{
  for (auto &c : s)
    if (c == '\n' || c == '\r')
      c = ' ';
  return s;
}
static mpq_class mq(const smt::rational &r)
{
  mpq_class q(mpz_class(r.numerator()), mpz_class(r.denominator()));
  q.canonicalize();
  return q;
}

struct Sim;
struct XL : public ratio::executor_listener
{
  XL(ratio::executor &e, Sim &s) : executor_listener(e), sim(s) {}
  Sim &sim;
  void tick(const smt::rational &time) override;
  void starting(const std::unordered_set<ratio::atom *> &atoms) override;
  void start(const std::unordered_set<ratio::atom *> &atoms) override;
  void ending(const std::unordered_set<ratio::atom *> &atoms) override;
  void end(const std::unordered_set<ratio::atom *> &atoms) override;
};
struct CL : public ratio::core_listener
{
  CL(ratio::core &c) : core_listener(c) {}
  long solutions = 0;
  void solution_found() override { ++solutions; }
};

struct AtomRec
{
  int starts = 0, ends = 0;
  long start_tick = -1, end_tick = -1;
  bool relisted_after_delay = true;
  std::vector<Val> start_lbs, end_lbs; // lower bounds the client asked for
  std::map<std::string, Val> frozen;   // values at start (start + non-temporal parameters)
  bool has_frozen_end = false;
  Val frozen_end;
  bool late = false; // created by a late requirement, at time 'added_at'
  Val added_at;
};

struct Sim
{
  ratio::solver *s = nullptr;
  ratio::executor *ex = nullptr;
  Listener *fl = nullptr;
  CL *cl = nullptr;
  Builder *b = nullptr;
  mpq_class upt = 1;
  std::vector<PViolation> viols;
  sim::EventLog log;
  sim::Counters cnt;
  std::map<ratio::atom *, AtomRec> rec;
  std::vector<ratio::atom *> order; // atoms in creation order (stable names)
  long tick_no = 0, tick_callbacks = 0;
  mpq_class last_tick_time = 0;
  bool have_last = false;
  // armed faults
  struct Delay
  {
    long k;
    mpq_class d;
  };
  std::vector<Delay> arm_start, arm_end;
  long faults_fired = 0, adaptations = 0;

  void viol(const std::string &cls, const std::string &msg)
  {
    if (viols.size() < 6)
      viols.push_back({"X", cls, msg});
    log.ev("violation " + cls);
  }
  void reindex()
  {
    order.clear();
    for (auto *f : fl->flaws)
      if (auto *af = dynamic_cast<const ratio::atom_flaw *>(f))
        order.push_back(&af->get_atom());
  }
  size_t idx(ratio::atom *a)
  {
    for (size_t i = 0; i < order.size(); ++i)
      if (order[i] == a)
        return i;
    reindex();
    for (size_t i = 0; i < order.size(); ++i)
      if (order[i] == a)
        return i;
    return 9999;
  }
  std::string name(ratio::atom *a) { return a->get_type().get_name() + "@" + std::to_string(idx(a)); }
  std::vector<ratio::atom *> sorted(const std::unordered_set<ratio::atom *> &as)
  {
    std::vector<ratio::atom *> v(as.begin(), as.end());
    std::sort(v.begin(), v.end(), [this](ratio::atom *x, ratio::atom *y)
              { return idx(x) < idx(y); });
    return v;
  }
  bool val(ratio::atom *a, const char *n, Val &v)
  {
    try
    {
      ratio::expr e = a->get(n);
      auto *ai = dynamic_cast<ratio::arith_item *>(&*e);
      if (!ai)
        return false;
      smt::inf_rational x = s->arith_value(ratio::arith_expr(ai));
      if (is_infinite(x.get_rational()))
        return false;
      v = Checker::conv(x);
      return true;
    }
    catch (const std::exception &)
    {
      return false;
    }
  }
  bool is_impulse(ratio::atom *a) { return s->is_impulse(*a); }
  Val now()
  {
    Val v;
    v.r = mq(ex->get_current_time());
    return v;
  }
};

void XL::tick(const smt::rational &time)
{
  ++sim.tick_callbacks;
  mpq_class t = mq(time);
  if (sim.have_last && t != sim.last_tick_time + sim.upt)
    sim.viol("X1.time_step", "tick callback reports time " + t.get_str() + " after " + sim.last_tick_time.get_str() + " (one tick is " + sim.upt.get_str() + ")");
  sim.last_tick_time = t;
  sim.have_last = true;
  sim.log.ev("tick " + t.get_str());
}
void XL::starting(const std::unordered_set<ratio::atom *> &atoms)
{
  auto v = sim.sorted(atoms);
  std::string s = "starting";
  for (auto *a : v)
  {
    s += " " + sim.name(a);
    sim.rec[a].relisted_after_delay = true;
  }
  sim.log.ev(s);
  if (!sim.arm_start.empty() && !v.empty())
  {
    Sim::Delay d = sim.arm_start.front();
    sim.arm_start.erase(sim.arm_start.begin());
    ratio::atom *a = v[static_cast<size_t>(d.k) % v.size()];
    Val cur;
    if (sim.val(a, sim.is_impulse(a) ? "at" : "start", cur))
    {
      Val lb = cur;
      lb.r += d.d;
      sim.rec[a].start_lbs.push_back(lb);
      sim.rec[a].relisted_after_delay = false;
      sim.ex->dont_start_yet({{a, smt::rational(d.d.get_num().get_si(), d.d.get_den().get_si())}});
      sim.cnt.inc("fault.delay_start");
      ++sim.faults_fired;
      sim.log.ev("dont_start_yet " + sim.name(a) + " +" + d.d.get_str());
    }
  }
}
void XL::ending(const std::unordered_set<ratio::atom *> &atoms)
{
  auto v = sim.sorted(atoms);
  std::string s = "ending";
  for (auto *a : v)
    s += " " + sim.name(a);
  sim.log.ev(s);
  if (!sim.arm_end.empty() && !v.empty())
  {
    Sim::Delay d = sim.arm_end.front();
    sim.arm_end.erase(sim.arm_end.begin());
    ratio::atom *a = v[static_cast<size_t>(d.k) % v.size()];
    Val cur;
    if (sim.val(a, sim.is_impulse(a) ? "at" : "end", cur))
    {
      Val lb = cur;
      lb.r += d.d;
      sim.rec[a].end_lbs.push_back(lb);
      sim.ex->dont_end_yet({{a, smt::rational(d.d.get_num().get_si(), d.d.get_den().get_si())}});
      sim.cnt.inc("fault.delay_end");
      ++sim.faults_fired;
      sim.log.ev("dont_end_yet " + sim.name(a) + " +" + d.d.get_str());
    }
  }
}
void XL::start(const std::unordered_set<ratio::atom *> &atoms)
{
  for (auto *a : sim.sorted(atoms))
  {
    AtomRec &r = sim.rec[a];
    sim.log.ev("start " + sim.name(a));
    sim.cnt.inc("dispatch.start");
    if (++r.starts > 1)
      sim.viol("X2.started_twice", "atom " + sim.name(a) + " is started a second time");
    r.start_tick = sim.tick_no;
    if (sim.s->get_sat_core().value(a->get_sigma()) != smt::True)
      sim.viol("X2.start_of_inactive_atom", "atom " + sim.name(a) + " is started although it is not active");
    if (!r.relisted_after_delay)
      sim.viol("X4.started_in_delayed_pass", "atom " + sim.name(a) + " is started in the very pass in which the client asked to delay it");
    Val st;
    if (sim.val(a, sim.is_impulse(a) ? "at" : "start", st))
    {
      if (vcmp(st, sim.now()) > 0)
        sim.viol("X3.started_early", "atom " + sim.name(a) + " is started at time " + vtext(sim.now()) + " before its planned time " + vtext(st));
      for (auto &lb : r.start_lbs)
        if (vcmp(st, lb) < 0)
          sim.viol("X4.delay_not_honoured", "atom " + sim.name(a) + " is started with start = " + vtext(st) + " although the client asked for at least " + vtext(lb));
      r.frozen["__time"] = st;
    }
    // freeze record: every numeric parameter except at / duration / end
    for (const auto &p : a->get_exprs())
      if (p.first != "at" && p.first != "duration" && p.first != "end")
      {
        Val v;
        if (sim.val(a, p.first.c_str(), v))
          r.frozen[p.first] = v;
      }
  }
}
void XL::end(const std::unordered_set<ratio::atom *> &atoms)
{
  for (auto *a : sim.sorted(atoms))
  {
    AtomRec &r = sim.rec[a];
    sim.log.ev("end " + sim.name(a));
    sim.cnt.inc("dispatch.end");
    if (++r.ends > 1)
      sim.viol("X2.ended_twice", "atom " + sim.name(a) + " is ended a second time");
    r.end_tick = sim.tick_no;
    if (r.starts == 0)
      sim.viol("X2.end_without_start", "atom " + sim.name(a) + " is ended but was never started");
    if (sim.s->get_sat_core().value(a->get_sigma()) != smt::True)
      sim.viol("X2.end_of_inactive_atom", "atom " + sim.name(a) + " is ended although it is not active");
    Val en;
    if (sim.val(a, sim.is_impulse(a) ? "at" : "end", en))
    {
      if (vcmp(en, sim.now()) > 0)
        sim.viol("X3.ended_early", "atom " + sim.name(a) + " is ended at time " + vtext(sim.now()) + " before its planned end " + vtext(en));
      for (auto &lb : r.end_lbs)
        if (vcmp(en, lb) < 0)
          sim.viol("X4.delay_not_honoured", "atom " + sim.name(a) + " is ended with end = " + vtext(en) + " although the client asked for at least " + vtext(lb));
      r.has_frozen_end = true;
      r.frozen_end = en;
    }
  }
}

// X6: nothing already started has moved
static void check_frozen(Sim &sim)
{
  for (auto &p : sim.rec)
  {
    ratio::atom *a = p.first;
    AtomRec &r = p.second;
    if (r.starts == 0 || sim.s->get_sat_core().value(a->get_sigma()) != smt::True)
      continue;
    for (auto &f : r.frozen)
    {
      if (f.first == "__time")
        continue;
      Val v;
      if (sim.val(a, f.first.c_str(), v) && vcmp(v, f.second) != 0)
        sim.viol("X6.started_atom_moved", "parameter " + f.first + " of the already started atom " + sim.name(a) + " changed from " + vtext(f.second) + " to " + vtext(v));
    }
    if (r.has_frozen_end)
    {
      Val v;
      if (sim.val(a, sim.is_impulse(a) ? "at" : "end", v) && vcmp(v, r.frozen_end) != 0)
        sim.viol("X6.ended_atom_moved", "the end of the already ended atom " + sim.name(a) + " changed from " + vtext(r.frozen_end) + " to " + vtext(v));
    }
    sim.cnt.inc("x6.frozen_checks");
  }
}

static bool g_q_delay_timelines = true; // quarantine of KF-X1: timeline oracles (P3/P4) are not evaluated after a delay adaptation

static void check_plan(Sim &sim, int units_read, const char *when, bool after_delay = false)
{
  Checker ck(*sim.s, sim.b->m, *sim.fl);
  ck.check_all(units_read);
  sim.cnt.inc("x5.plan_rechecks");
  for (auto &v : ck.out)
  {
    if (after_delay && g_q_delay_timelines && (v.oracle == "P3" || v.oracle == "P4"))
    {
      sim.cnt.inc("quarantined.timeline_check_after_delay");
      continue;
    }
    sim.viol("X5." + v.cls, std::string("after ") + when + ": " + v.msg);
  }
}

static void run_cmd(const sim::Cmd &c, sim::Out &out)
{
  const std::string prop = c.str("prop", "C19");
  const uint64_t seed = c.u64("seed", 1);
  const uint64_t layout = c.u64("layout", 0);
  const bool verbose = c.num("verbose", 0) != 0;
  g_q_delay_timelines = c.num("q_delay_timelines", 1) != 0;
  const bool q_late = c.num("q_late_requirements", 1) != 0; // late goals/facts between ticks are outside C19's quantifier (ticks, delays, failures): generated, skipped unless q_late_requirements=0 is given
  std::vector<Op> ops;
  long upt_i = c.num("upt", -1);
  if (c.verb == "run" || c.verb == "gen")
  {
    sim::Rng sw = sim::Rng(seed).derive("exec-swarm"), g = sim::Rng(seed).derive("exec-gen");
    ops = generate(seed, "C19");
    upt_i = static_cast<long>(sw.below(4));
    // execution ops
    Op x;
    x.name = "xbegin";
    ops.push_back(x);
    int n = static_cast<int>(sw.range(4, 14));
    int faults_left = static_cast<int>(sw.range(0, 5));
    if (sw.chance(1, 5))
    { // a scripted tail: delay the end of whatever ends first, a few times, then report a still pending atom as failed (twice):
      // the combination "delayed, ended, then the plan changes" that random fault mixes rarely line up
      n = 0;
      auto push = [&](const char *name, std::vector<long> a)
      {
        Op o;
        o.name = name;
        o.a = a;
        ops.push_back(o);
      };
      for (int i = 0, k = static_cast<int>(sw.range(2, 5)); i < k; ++i)
      {
        push("xdend", {static_cast<long>(g.below(2)), static_cast<long>(1 + g.below(3))});
        push("xtick", {static_cast<long>(g.range(1, 3))});
      }
      push("xfailp", {static_cast<long>(g.below(3))});
      push("xtick", {2});
      push("xfailp", {static_cast<long>(g.below(3))});
    }
    else if (sim::Rng(seed).derive("exec-endfail").chance(1, std::any_of(ops.begin(), ops.end(), [](const Op &o) { return o.name == "epin"; }) ? 2 : 5))
    { // the adaptive script (see xendfail), after a few ordinary ticks
      n = static_cast<int>(sw.range(0, 2));
      faults_left = 0;
      Op o;
      o.name = "xendfail";
      o.a = {static_cast<long>(g.below(3)), static_cast<long>(g.below(2)), static_cast<long>(g.below(16))};
      ops.push_back(o);
    }
    for (int i = 0; i < n; ++i)
    {
      Op o;
      if (faults_left > 0 && g.chance(1, 2))
      {
        --faults_left;
        switch (g.below(6))
        {
        case 0:
        case 1:
          o.name = "xdstart";
          o.a = {static_cast<long>(g.below(4)), static_cast<long>(g.below(5))};
          break;
        case 2:
          o.name = "xdend";
          o.a = {static_cast<long>(g.below(4)), static_cast<long>(g.below(5))};
          break;
        case 3:
          o.name = "xfail";
          o.a = {static_cast<long>(g.below(4))};
          break;
        case 4:
          o.name = "xfailp";
          o.a = {static_cast<long>(g.below(4))};
          break;
        default:
          if (g.chance(1, 4))
          { // a late requirement (skipped unless q_late_requirements=0 is given)
            o = g_op(g, g.chance(1, 2) ? "goal" : "fact");
            o.name = "l" + o.name;
          }
          else
          {
            o.name = g.chance(1, 2) ? "xfail" : "xfailp";
            o.a = {static_cast<long>(g.below(4))};
          }
          break;
        }
      }
      else
      {
        o.name = "xtick";
        o.a = {static_cast<long>(g.range(1, 4))};
      }
      ops.push_back(o);
    }
    Op t;
    t.name = "xtick";
    t.a = {12}; // faults have stopped: let the plan run out
    ops.push_back(t);
  }
  else
    for (auto &l : c.body)
    {
      Op op;
      if (Op::parse(l, op))
        ops.push_back(op);
    }
  if (upt_i < 0)
    upt_i = 0;
  static const char *upts[] = {"1", "1/2", "2", "5/3"};
  Sim sim;
  sim.log.keep = verbose;
  sim.upt = mpq_class(upts[upt_i % 4]);
  Builder b;
  sim.b = &b;
  size_t xbegin = ops.size();
  for (size_t i = 0; i < ops.size(); ++i)
  {
    if (ops[i].name == "xbegin")
    {
      xbegin = i;
      break;
    }
    if (ops[i].name[0] != 'x' && ops[i].name != "cut") // one unit: execution starts from a single solved problem
      b.apply(ops[i]);
  }
  b.finalize();
  out.line("P layout=" + std::to_string(layout) + " seed=" + std::to_string(seed) + " upt=" + std::to_string(upt_i));
  if (c.verb == "gen" || c.num("emit_ops", 0))
    for (auto &op : ops)
      out.line("O " + op.text());
  if (c.verb == "gen" || verbose)
  {
    std::istringstream is(b.units[0]);
    std::string ln;
    while (std::getline(is, ln))
      out.line("T " + ln);
  }
  if (c.verb == "gen")
  {
    out.line("R status=OK hash=0 ops=" + std::to_string(ops.size()) + " done=0 nontrivial=0 sig=0");
    return;
  }
  out.flush();
  uint64_t sig = sim::fnv64(std::to_string(layout) + "/" + std::to_string(upt_i));
  for (auto &op : ops)
    sig = sim::fnv64(op.text(), sig);
  std::string status = "OK";
  std::string ended = "";
  { // what fresh heap blocks hold is part of the simulated environment too: zero, 0xff, 0x5a or whatever was there before
    static const int fills[] = {-1, 0x00, 0xff, 0x5a};
    sim::layout::set_poison(static_cast<int>(c.num("poison", fills[sim::Rng(seed).derive("poison").below(4)])));
  }
  sim::layout::start(sim::mix64(seed * 1000003ULL + layout), layout != 0, 0);
  sim.s = new ratio::solver();
  sim.fl = new Listener(*sim.s);
  sim.cl = new CL(*sim.s);
  sim.ex = new ratio::executor(*sim.s, smt::rational(sim.upt.get_num().get_si(), sim.upt.get_den().get_si()));
  XL *xl = new XL(*sim.ex, sim);
  (void)xl;
  int units_read = 1;
  bool solved = false;
  try
  {
    sim.s->read(b.units[0]);
    solved = sim.s->solve();
  }
  catch (const ratio::execution_exception &)
  {
    ended = "execution_exception while solving";
  }
  catch (const std::exception &e)
  {
    status = "DISCARD";
    sim.cnt.inc("discard.reader_or_solver_rejected");
    out.line("N oracle=GEN class=rejected op=0 msg=" + one_line(e.what()));
  }
  if (status == "OK" && ended.empty() && !solved)
  {
    status = "DISCARD";
    sim.cnt.inc("discard.unsolvable");
  }
  long total_ticks = 0;
  if (status == "OK" && ended.empty())
  {
    sim.reindex();
    check_plan(sim, units_read, "the initial solve");
    static const char *delays[] = {"0", "1/2", "1", "3", "10"};
    bool pending_recheck = false;
    for (size_t i = xbegin + 1; i < ops.size() && sim.viols.empty() && ended.empty(); ++i)
    {
      const Op &op = ops[i];
      long sol_before = sim.cl->solutions;
      try
      {
        auto tick_once = [&]()
        {
          ++sim.tick_no;
          ++total_ticks;
          long cb = sim.tick_callbacks;
          long sb = sim.cl->solutions;
          sim.ex->tick();
          if (pending_recheck)
          {
            pending_recheck = false;
            check_frozen(sim);
            check_plan(sim, units_read, "a late requirement (first tick after it)");
          }
          if (sim.tick_callbacks != cb + 1)
            sim.viol("X1.tick_callbacks", "one tick() call produced " + std::to_string(sim.tick_callbacks - cb) + " tick callbacks");
          check_frozen(sim);
          if (sim.cl->solutions != sb)
          {
            ++sim.adaptations;
            check_plan(sim, units_read, "a delay handled inside tick()", true);
          }
        };
        auto fail_one = [&](bool of_executing, long which)
        {
          std::vector<ratio::atom *> cands;
          sim.reindex();
          for (auto *a : sim.order)
          {
            if (sim.s->get_sat_core().value(a->get_sigma()) != smt::True || !(sim.s->is_impulse(*a) || sim.s->is_interval(*a)))
              continue;
            AtomRec &r = sim.rec[a];
            bool executing = r.starts > 0 && r.ends == 0, pending = r.starts == 0;
            if (of_executing ? executing : pending)
              cands.push_back(a);
          }
          if (cands.empty())
            return false;
          ratio::atom *a = cands[static_cast<size_t>(std::abs(which)) % cands.size()];
          sim.cnt.inc(of_executing ? "fault.failure_of_executing_atom" : "fault.failure_of_pending_atom");
          ++sim.faults_fired;
          sim.log.ev("failure " + sim.name(a));
          sim.ex->failure({a});
          ++sim.adaptations;
          sim.rec.erase(a);
          check_frozen(sim);
          check_plan(sim, units_read, "failure()");
          return true;
        };
        if (op.name == "xtick")
        {
          long n = std::abs(op.arg(0)) % 16;
          for (long k = 0; k < n && sim.viols.empty(); ++k)
            tick_once();
        }
        else if (op.name == "xendfail")
        { // an adaptive script (a client that reacts to what it sees): delay one end a little, keep ticking until an atom whose end
          // was delayed HAS ended, then report another atom (a pending one if there is one, else an executing one) as failed, twice:
          // "delayed, ended, then the plan changes" - the frozen end has to survive the re-planning
          sim.arm_end.push_back({std::abs(op.arg(0)), mpq_class(delays[1 + std::abs(op.arg(1)) % 2])});
          bool seen = false;
          for (long k = 0; k < 24 && sim.viols.empty() && !seen; ++k)
          {
            tick_once();
            for (auto &p : sim.rec)
              if (p.second.ends > 0 && !p.second.end_lbs.empty())
                seen = true;
          }
          if (seen)
            sim.cnt.inc("probe.delayed_end_then_ended");
          for (int rep = 0; rep < 2 && seen && sim.viols.empty(); ++rep)
          {
            const bool pend_first = ((std::abs(op.arg(2)) >> rep) & 1) == 0;
            if (!fail_one(!pend_first, op.arg(2) / 4) && !fail_one(pend_first, op.arg(2) / 4))
              break;
            sim.cnt.inc("probe.failure_after_delayed_end");
            for (long k = 0; k < 2 && sim.viols.empty(); ++k)
              tick_once();
          }
        }
        else if (op.name == "xdstart")
          sim.arm_start.push_back({std::abs(op.arg(0)), mpq_class(delays[std::abs(op.arg(1)) % 5])});
        else if (op.name == "xdend")
          sim.arm_end.push_back({std::abs(op.arg(0)), mpq_class(delays[std::abs(op.arg(1)) % 5])});
        else if (op.name == "xfail" || op.name == "xfailp")
          fail_one(op.name == "xfail", op.arg(0));
        else if ((op.name == "lgoal" || op.name == "lfact") && q_late)
          sim.cnt.inc("quarantined.late_requirement");
        else if (op.name == "lgoal" || op.name == "lfact")
        { // a late requirement, delivered the way executor/ros does: back to root, read, solve
          Op g = op;
          g.name = op.name.substr(1);
          size_t before = b.m.stmts.size();
          b.apply(g);
          if (b.m.stmts.size() > before)
          {
            while (!sim.s->root_level())
              sim.s->get_sat_core().pop();
            sim.cnt.inc("fault.late_requirement");
            ++sim.faults_fired;
            sim.log.ev("late " + b.m.stmts.back().text);
            if (verbose)
              out.line("T late: " + b.m.stmts.back().text);
            sim.reindex();
            const size_t atoms_before = sim.order.size();
            sim.s->read(b.m.stmts.back().text);
            sim.reindex();
            for (size_t ai = atoms_before; ai < sim.order.size(); ++ai)
            {
              sim.rec[sim.order[ai]].late = true;
              sim.rec[sim.order[ai]].added_at = sim.now();
            }
            if (!sim.s->solve())
            {
              ended = "late requirement made the problem unsolvable";
              break;
            }
            sim.reindex();
            for (size_t ai = atoms_before; ai < sim.order.size(); ++ai)
              if (!sim.rec[sim.order[ai]].late)
              { // sub-goals the solver created for it
                sim.rec[sim.order[ai]].late = true;
                sim.rec[sim.order[ai]].added_at = sim.now();
              }
            ++sim.adaptations;
            // whether the adapted plan is still executable is only known at the next tick (it throws
            // execution_exception if not): the frozen-past and validity checks wait for that tick
            pending_recheck = true;
          }
        }
      }
      catch (const ratio::execution_exception &)
      {
        ended = "execution_exception";
        sim.cnt.inc("ended.execution_exception");
      }
      catch (const ratio::unsolvable_exception &)
      {
        ended = "unsolvable_exception";
        sim.cnt.inc("ended.unsolvable_exception");
      }
      catch (const std::exception &e)
      {
        sim.viol("X7.other_exception", std::string("an exception other than execution_exception escaped: ") + e.what());
      }
      (void)sol_before;
    }
    // liveness once faults have stopped: every active atom whose end lies in the past was dispatched exactly once
    if (sim.viols.empty() && ended.empty())
    {
      sim.reindex();
      for (auto *a : sim.order)
      {
        if (sim.s->get_sat_core().value(a->get_sigma()) != smt::True || !(sim.s->is_impulse(*a) || sim.s->is_interval(*a)))
          continue;
        Val en;
        if (!sim.val(a, sim.is_impulse(a) ? "at" : "end", en))
          continue;
        Val t = sim.now();
        t.r -= sim.upt; // strictly in the past of the last processed tick
        if (vcmp(en, t) < 0)
        {
          sim.cnt.inc("x2.completed_atoms_checked");
          AtomRec &r = sim.rec[a];
          Val st;
          if (r.late && r.starts == 0 && sim.val(a, sim.is_impulse(a) ? "at" : "start", st) && vcmp(st, r.added_at) < 0)
          { // a late requirement that the planner placed before the moment it was added: the executor only
            // dispatches what is not yet in the past, and C19 quantifies over ticks, delays and failures only
            sim.cnt.inc("x2.late_atom_planned_in_the_past");
            continue;
          }
          if (r.starts != 1 || r.ends != 1)
            sim.viol("X2.not_dispatched_exactly_once", "active atom " + sim.name(a) + " ending at " + vtext(en) + " (now " + vtext(sim.now()) + ") was started " + std::to_string(r.starts) + " and ended " + std::to_string(r.ends) + " times");
        }
      }
    }
  }
  sim::layout::stop();
  sim.cnt.inc("ticks", total_ticks);
  sim.cnt.inc("faults_fired", sim.faults_fired);
  sim.cnt.inc("adaptations", sim.adaptations);
  if (!ended.empty())
    sim.log.ev("ended: " + ended);
  if (!sim.viols.empty())
    status = "VIOL";
  for (auto &v : sim.viols)
    out.line("V oracle=" + v.oracle + " class=" + v.cls + " op=0 msg=" + one_line(v.msg));
  if (verbose)
    for (auto &l : sim.log.lines)
      out.line("T " + one_line(l));
  for (auto &p : sim.cnt.c)
    out.line("C " + p.first + " " + std::to_string(p.second));
  bool nontrivial = sim.faults_fired > 0 && sim.adaptations > 0;
  out.line("R status=" + status + " hash=" + sim::hex64(sim.log.hash()) + " ops=" + std::to_string(ops.size()) + " done=" + std::to_string(total_ticks) + " nontrivial=" + (nontrivial ? "1" : "0") + " sig=" + sim::hex64(sig));
}

int main(int argc, char **argv)
{
  return sim::worker_main(argc, argv, run_cmd, 8000);
}
