// IO engine (C18): input faults against the real lexer / parser / reader.
//   exec <id> prop=C18 body=1
//     trunc file=<path> layer=a|b fault=eof|bad from=<i> to=<j>     every prefix length in [i,j) of the file
//     mut   file=<path> layer=a seed=<n> count=<k>                   k seeded byte mutations of the file
//     hex   layer=a|b|c <hexbytes>                                   one explicit input
// layer a = riddle::parser alone; b = full solver::read on (a prefix of) a valid program; c = full read on arbitrary text.
// Outcome of one input: returned, or threw std::exception (both fine); anything else - another exception type, a signal,
// abort, failed assertion, or no answer within T seconds of CPU - is a violation. The stream the lexer reads is ours:
// 'eof' ends it at the cut, 'bad' makes the underlying streambuf throw at the cut (stream goes bad mid-read).
#include "../core/worker.h"
#include "../core/common.h"
#include "../core/layout.h"
#include "riddle_parser.h"
#include "solver.h"
#include <fstream>
#include <sstream>
#include <streambuf>
#include <cstring>
#include <sys/time.h>

static const int T_SECONDS = 2;
static std::string g_pending; // what to report if the current input hangs
static int g_fd = -1;

static void on_alarm(int)
{
  if (g_fd >= 0)
    (void)!write(g_fd, g_pending.data(), g_pending.size());
  _exit(0);
}

// a streambuf over a byte string that fails (throws) when read past 'limit'
class FaultyBuf : public std::streambuf
{
public:
  FaultyBuf(const std::string &data, size_t limit, bool bad) : data(data), limit(limit), bad(bad) {}

protected:
  int_type underflow() override
  {
    if (pos >= limit)
    {
      if (bad)
        throw std::ios_base::failure("simulated read error");
      return traits_type::eof();
    }
    cur = data[pos];
    setg(&cur, &cur, &cur + 1);
    return traits_type::to_int_type(cur);
  }
  int_type uflow() override
  {
    int_type c = underflow();
    if (c != traits_type::eof())
    {
      ++pos;
      setg(&cur, &cur + 1, &cur + 1);
    }
    return c;
  }

private:
  const std::string &data;
  size_t limit, pos = 0;
  bool bad;
  char cur = 0;
};

static std::string slurp(const std::string &path)
{
  std::ifstream f(path, std::ios::binary);
  std::stringstream ss;
  ss << f.rdbuf();
  return ss.str();
}

// returns a short outcome tag; throws nothing. detail = what the caller was told (the exception text)
static std::string run_one(const std::string &data, size_t limit, bool bad, char layer, std::string *detail = nullptr)
{
  try
  {
    if (layer == 'a')
    {
      FaultyBuf fb(data, limit, bad);
      std::istream is(&fb);
      riddle::parser p(is);
      riddle::ast::compilation_unit *cu = p.parse();
      delete cu;
      return "parsed";
    }
    else
    {
      // the reader takes a string or files: the stream fault is applied to what reaches it
      std::string text = data.substr(0, limit);
      ratio::solver *s = new ratio::solver();
      s->read(text);
      delete s;
      return "read";
    }
  }
  catch (const std::exception &e)
  {
    if (detail)
      *detail = e.what();
    return std::string("rejected:") + typeid(e).name();
  }
  catch (...)
  {
    return "ALIEN_EXCEPTION";
  }
}

static std::string hexs(const std::string &s)
{
  static const char *d = "0123456789abcdef";
  std::string o;
  for (unsigned char c : s)
  {
    o += d[c >> 4];
    o += d[c & 15];
  }
  return o;
}
static std::string unhex(const std::string &h)
{
  std::string o;
  for (size_t i = 0; i + 1 < h.size(); i += 2)
    o += static_cast<char>(strtol(h.substr(i, 2).c_str(), nullptr, 16));
  return o;
}

static void arm(const std::string &report)
{
  g_pending = report;
  struct itimerval tv;
  memset(&tv, 0, sizeof tv);
  tv.it_value.tv_sec = T_SECONDS;
  setitimer(ITIMER_VIRTUAL, &tv, nullptr); // CPU time of this process
}
static void disarm()
{
  struct itimerval tv;
  memset(&tv, 0, sizeof tv);
  setitimer(ITIMER_VIRTUAL, &tv, nullptr);
}

static void run_cmd(const sim::Cmd &c, sim::Out &out)
{
  g_fd = out.fd;
  signal(SIGVTALRM, on_alarm);
  // the op is the single body line
  std::string line = c.body.empty() ? "" : c.body[0];
  sim::Cmd op;
  sim::detail::parse_cmd("x " + line, op); // verb="x", id=<kind>, kv...
  const std::string kind = op.id;
  const char layer = op.str("layer", "a")[0];
  sim::EventLog log;
  sim::Counters cnt;
  long n = 0, nontrivial = 0;
  std::string status = "OK";
  const bool poison_ok = op.num("poison", 1) != 0;
  static bool configured = false;
  auto report = [&](const std::string &cls, long off, const std::string &msg)
  { return "V oracle=IO class=" + cls + " op=" + std::to_string(off) + " msg=" + msg + "\n"; };
  auto tail = [&](const std::string &st)
  { return "R status=" + st + " hash=" + sim::hex64(log.hash()) + " ops=" + std::to_string(n) + " done=" + std::to_string(n) + " nontrivial=" + std::to_string(nontrivial > 0) + " sig=" + sim::hex64(sim::fnv64(line)) + "\n"; };
  auto one = [&](const std::string &data, size_t limit, bool bad, long tag) -> bool
  {
    out.line("K " + std::to_string(tag));
    out.flush();
    arm(report(std::string("IO.") + layer + ".hang", tag, "no answer within " + std::to_string(T_SECONDS) + " s of CPU time on this input") + tail("VIOL"));
    std::string r = run_one(data, limit, bad, layer);
    // the bytes of the input are all the parser may depend on: the same input is parsed again with every heap block it gets
    // pre-filled with '"', with a line break and with 0xff (the allocator is ours); a different outcome or message means that
    // memory which is not part of the input - uninitialised, or beyond the end of the text - was read
    if ((layer == 'a' || layer == 'b') && r != "ALIEN_EXCEPTION" && poison_ok)
    {
      static const int fills[] = {'"', '\n', 0xff};
      std::string first_r, first_d;
      for (size_t k = 0; k < 3; ++k)
      {
        std::string d, rr;
        sim::layout::set_poison(fills[k]);
        if (!configured)
          sim::layout::configure(512ULL << 20, 1ULL << 16), configured = true;
        sim::layout::start(1, false);
        {
          std::string dd;
          rr = run_one(data, limit, bad, layer, &dd);
          sim::layout::stop();
          d = dd.c_str();
        }
        sim::layout::set_poison(-1);
        if (k == 0)
          first_r = rr, first_d = d;
        else if (rr != first_r || d != first_d)
        {
          disarm();
          ++n;
          cnt.inc("poison_differential_runs", static_cast<long>(k + 1));
          out.line(report(std::string("IO.") + layer + ".reads_memory_outside_input", tag, "the outcome depends on what memory that is not part of the input holds: with fresh heap blocks filled with 0x22 -> " + first_r + " '" + first_d.substr(0, 80) + "', filled with " + (k == 1 ? "0x0a" : "0xff") + " -> " + rr + " '" + d.substr(0, 80) + "'"));
          status = "VIOL";
          return false;
        }
      }
      cnt.inc("poison_differential_runs", 3);
    }
    disarm();
    ++n;
    cnt.inc("outcome." + r.substr(0, r.find(':')));
    log.ev(std::to_string(tag) + " " + r);
    if (limit > 0 && limit < data.size() && !isspace(static_cast<unsigned char>(data[limit - 1])) && !isspace(static_cast<unsigned char>(data[limit])))
      ++nontrivial;
    if (r == "ALIEN_EXCEPTION")
    {
      out.line(report(std::string("IO.") + layer + ".alien_exception", tag, "an exception not derived from std::exception escaped"));
      status = "VIOL";
      return false;
    }
    return true;
  };
  if (kind == "trunc")
  {
    std::string data = slurp(op.str("file", ""));
    bool bad = op.str("fault", "eof") == "bad";
    size_t from = static_cast<size_t>(op.num("from", 0)), to = static_cast<size_t>(op.num("to", static_cast<long>(data.size()) + 1));
    if (to > data.size() + 1)
      to = data.size() + 1;
    cnt.inc(std::string("fault.") + (bad ? "stream_goes_bad" : "eof") + "." + layer, static_cast<long>(to > from ? to - from : 0));
    for (size_t off = from; off < to; ++off)
      if (!one(data, off, bad, static_cast<long>(off)))
        break;
  }
  else if (kind == "mut")
  {
    std::string base = slurp(op.str("file", ""));
    sim::Rng r(op.u64("seed", 1));
    long count = op.num("count", 50), first = op.num("first", 0);
    for (long i = first; i < first + count; ++i)
    {
      std::string d = base;
      sim::Rng ri = r.derive(static_cast<uint64_t>(i));
      int edits = 1 + static_cast<int>(ri.below(3));
      for (int e = 0; e < edits && !d.empty(); ++e)
      {
        size_t pos = ri.below(d.size());
        static const char interesting[] = "\"/*\\(){};:.,=!<>|&^+-0123456789 \n\t\x00\xff";
        char ch = interesting[ri.below(sizeof interesting - 1)];
        switch (ri.below(4))
        {
        case 0:
          d[pos] = ch;
          cnt.inc("fault.byte_replaced");
          break;
        case 1:
          d.insert(pos, 1, ch);
          cnt.inc("fault.byte_inserted");
          break;
        case 2:
          d.erase(pos, 1 + ri.below(4));
          cnt.inc("fault.bytes_deleted");
          break;
        default:
          d.insert(pos, std::string(1 + ri.below(12), static_cast<char>('0' + ri.below(10))));
          cnt.inc("fault.digits_inserted");
          break;
        }
      }
      nontrivial += 1;
      if (!one(d, d.size(), false, i))
        break;
    }
  }
  else if (kind == "hex")
  {
    std::string d = unhex(op.str("data", ""));
    one(d, d.size(), false, 0);
    nontrivial += 1;
  }
  for (auto &p : cnt.c)
    out.line("C " + p.first + " " + std::to_string(p.second));
  out.line("C inputs " + std::to_string(n));
  out.line(tail(status).substr(0, tail(status).size() - 1));
  (void)hexs;
}

int main(int argc, char **argv)
{
  return sim::worker_main(argc, argv, run_cmd, 30000);
}
