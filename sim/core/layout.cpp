// Seeded heap-layout allocator: replaces global operator new/delete in the engine executable.
// The repo's shared libraries resolve _Znwm/_ZdlPv to these definitions, so every object the system
// under test allocates gets an address that is a pure function of the layout seed (ASLR-independent):
// address-ordered containers (std::set<T*>, unordered_set<T*>, min_element over them) then iterate in
// an order decided by the seed. Only the thread that called layout::start and only while not
// suspended allocates from the arena; everything else (z3, other threads, bootstrap) goes to malloc.
#include "layout.h"
#include "prng.h"
#include <sys/mman.h>
#include <cstdio>
#include <cstdlib>
#include <cstring>
#include <new>
#include <malloc.h>

#ifndef MAP_FIXED_NOREPLACE
#define MAP_FIXED_NOREPLACE 0x100000
#endif

#ifdef VERIF_NO_LAYOUT
// Sanitizer configurations: the heap belongs to the sanitizer (it must see every allocation to report overflows and
// use-after-free), so the seeded layout is switched off: same interface, plain malloc underneath.
void (*sim_layout_free_hook)(void *, size_t) = nullptr;
namespace sim
{
  namespace layout
  {
    void start(uint64_t, bool, size_t) {}
    void *pool_alloc(size_t n) { return ::operator new(n); }
    void pool_free(void *p) { ::operator delete(p); }
    void set_poison(int) {}
    void configure(size_t, size_t) {}
    void stop() {}
    bool active() { return false; }
    void suspend() {}
    void resume() {}
    uint64_t allocations() { return 0; }
    size_t bytes_used() { return 0; }
  } // namespace layout
} // namespace sim
#else
// optional observer of freed blocks (the PAR engine's race detector drops its shadow cells)
void (*sim_layout_free_hook)(void *, size_t) = nullptr;

namespace
{
  constexpr uintptr_t ARENA_BASE = 0x100000000000ULL;
  constexpr uintptr_t META_BASE = 0x0f0000000000ULL;
  constexpr size_t N_CLASSES = 64 + 17;              // 16..1024 step 16, then 2K..64M powers of two
  size_t FREE_CAP = 1ULL << 22;                       // entries per class (configure() before the first start)
  size_t ARENA_SIZE = 6ULL << 30;                     // virtual, MAP_NORESERVE
#define META_SIZE (N_CLASSES * FREE_CAP * sizeof(void *))
  constexpr uint32_t MAGIC = 0x51a70ca7;

  struct header
  {
    uint32_t magic;
    uint32_t cls;
    uint64_t size;
  };
  static_assert(sizeof(header) == 16, "header must keep 16-byte alignment");

  bool g_mapped = false;
  bool g_random = false;
  uintptr_t g_bump = ARENA_BASE;
  size_t g_nfree[N_CLASSES];
  void **g_free_tab[N_CLASSES];
  sim::Rng g_rng(1);
  size_t g_limit = 6ULL << 30;
  uint64_t g_allocs = 0;
  int g_poison = -1;
  thread_local bool tl_active = false;
  thread_local int tl_suspend = 0;

  inline size_t class_of(size_t n)
  {
    if (n == 0)
      n = 1;
    if (n <= 1024)
      return (n + 15) / 16 - 1; // 0..63
    size_t c = 64, sz = 2048;
    while (sz < n && c < N_CLASSES - 1)
    {
      sz <<= 1;
      ++c;
    }
    return sz >= n ? c : N_CLASSES; // N_CLASSES = too large
  }
  inline size_t size_of_class(size_t c) { return c < 64 ? (c + 1) * 16 : (2048ULL << (c - 64)); }
  inline size_t slab_of_class(size_t c) { return c < 64 ? 64 : (c < 70 ? 8 : 1); }

  [[noreturn]] void die(const char *msg)
  {
    fprintf(stderr, "layout allocator: %s\n", msg);
    fflush(stderr);
    abort();
  }

  // a pool of its own (fixed base, LIFO reuse) for one kind of object: addresses then depend only on the allocation
  // history of that kind, not on anything else the process allocates. The PAR engine routes smt::row through it (hook
  // H2), so that the watch lists (unordered_set<row *>, hashed by address) iterate in the same order in the sequential
  // and in the parallel build, whose other allocations differ, and under every thread schedule.
  constexpr uintptr_t DED_BASE = 0x0e0000000000ULL;
  constexpr size_t DED_SIZE = 1ULL << 30;
  uintptr_t g_ded_bump = DED_BASE;
  void *g_ded_free = nullptr;
  bool g_ded_mapped = false;

  void *ded_alloc(size_t n)
  {
    header *h;
    if (g_ded_free)
    {
      h = static_cast<header *>(g_ded_free);
      g_ded_free = *reinterpret_cast<void **>(h + 1);
    }
    else
    {
      const size_t bs = ((n + 15) & ~size_t(15)) + sizeof(header);
      if (g_ded_bump + bs > DED_BASE + DED_SIZE)
        throw std::bad_alloc();
      h = reinterpret_cast<header *>(g_ded_bump);
      g_ded_bump += bs;
    }
    h->magic = MAGIC;
    h->cls = 0xfffffffeu;
    h->size = n;
    return h + 1;
  }

  void *arena_alloc(size_t n)
  {
    ++g_allocs;
    const size_t c = class_of(n);
    if (c >= N_CLASSES)
    { // huge: bump, never reused
      size_t tot = (n + sizeof(header) + 15) & ~size_t(15);
      if (g_bump + tot > ARENA_BASE + g_limit)
        throw std::bad_alloc();
      header *h = reinterpret_cast<header *>(g_bump);
      g_bump += tot;
      h->magic = MAGIC;
      h->cls = 0xffffffffu;
      h->size = n;
      if (g_poison >= 0)
        memset(h + 1, g_poison, tot - sizeof(header));
      return h + 1;
    }
    if (g_nfree[c] == 0)
    { // carve a new slab
      const size_t bs = size_of_class(c) + sizeof(header);
      const size_t k = slab_of_class(c);
      if (g_bump + bs * k > ARENA_BASE + g_limit)
        throw std::bad_alloc();
      for (size_t i = 0; i < k; ++i)
        g_free_tab[c][g_nfree[c]++] = reinterpret_cast<void *>(g_bump + bs * (k - 1 - i));
      g_bump += bs * k;
    }
    size_t idx = g_nfree[c] - 1;
    if (g_random)
      idx = g_rng.below(g_nfree[c]);
    void *blk = g_free_tab[c][idx];
    g_free_tab[c][idx] = g_free_tab[c][g_nfree[c] - 1];
    --g_nfree[c];
    header *h = static_cast<header *>(blk);
    h->magic = MAGIC;
    h->cls = static_cast<uint32_t>(c);
    h->size = n;
    if (g_poison >= 0)
      memset(h + 1, g_poison, size_of_class(c));
    return h + 1;
  }

  inline bool in_arena(const void *p)
  {
    const uintptr_t a = reinterpret_cast<uintptr_t>(p);
    return (a >= ARENA_BASE && a < ARENA_BASE + ARENA_SIZE) || (a >= DED_BASE && a < DED_BASE + DED_SIZE);
  }

  void arena_free(void *p)
  {
    header *h = static_cast<header *>(p) - 1;
    if (h->magic != MAGIC)
      die("bad free (corrupted header or double free)");
    h->magic = 0;
    if (h->cls == 0xffffffffu)
      return;
    if (h->cls == 0xfffffffeu)
    {
      *reinterpret_cast<void **>(h + 1) = g_ded_free;
      g_ded_free = h;
      return;
    }
    const size_t c = h->cls;
    if (g_nfree[c] >= FREE_CAP)
      return; // leak rather than overflow
    g_free_tab[c][g_nfree[c]++] = h;
  }
} // namespace

namespace sim
{
  namespace layout
  {
    void start(uint64_t seed, bool randomise, size_t limit_bytes)
    {
      if (!g_mapped)
      {
        void *a = mmap(reinterpret_cast<void *>(ARENA_BASE), ARENA_SIZE, PROT_READ | PROT_WRITE, MAP_PRIVATE | MAP_ANONYMOUS | MAP_NORESERVE | MAP_FIXED_NOREPLACE, -1, 0);
        if (a != reinterpret_cast<void *>(ARENA_BASE))
          die("cannot map arena at fixed address");
        void *m = mmap(reinterpret_cast<void *>(META_BASE), META_SIZE, PROT_READ | PROT_WRITE, MAP_PRIVATE | MAP_ANONYMOUS | MAP_NORESERVE | MAP_FIXED_NOREPLACE, -1, 0);
        if (m != reinterpret_cast<void *>(META_BASE))
          die("cannot map allocator metadata at fixed address");
        for (size_t c = 0; c < N_CLASSES; ++c)
          g_free_tab[c] = reinterpret_cast<void **>(META_BASE + c * FREE_CAP * sizeof(void *));
        g_mapped = true;
      }
      g_rng = Rng(mix64(seed ^ 0x1a70071a70ULL));
      g_random = randomise;
      g_limit = limit_bytes && limit_bytes < ARENA_SIZE ? limit_bytes : ARENA_SIZE;
      tl_active = true;
    }
    void *pool_alloc(size_t n)
    {
      if (!g_ded_mapped)
      {
        void *a = mmap(reinterpret_cast<void *>(DED_BASE), DED_SIZE, PROT_READ | PROT_WRITE, MAP_PRIVATE | MAP_ANONYMOUS | MAP_NORESERVE | MAP_FIXED_NOREPLACE, -1, 0);
        if (a != reinterpret_cast<void *>(DED_BASE))
          die("cannot map the dedicated pool at its fixed address");
        g_ded_mapped = true;
      }
      return ded_alloc(n);
    }
    void pool_free(void *p)
    {
      if (sim_layout_free_hook)
        sim_layout_free_hook(p, (static_cast<header *>(p) - 1)->size);
      arena_free(p);
    }
    void set_poison(int byte) { g_poison = byte; }
    void configure(size_t arena_bytes, size_t free_entries_per_class)
    {
      if (g_mapped)
        die("configure() after the arena was mapped");
      ARENA_SIZE = arena_bytes;
      FREE_CAP = free_entries_per_class;
    }
    void stop() { tl_active = false; }
    bool active() { return tl_active && tl_suspend == 0; }
    void suspend() { ++tl_suspend; }
    void resume() { --tl_suspend; }
    uint64_t allocations() { return g_allocs; }
    size_t bytes_used() { return g_bump - ARENA_BASE; }
  } // namespace layout
} // namespace sim

void *operator new(size_t n)
{
  if (tl_active && tl_suspend == 0)
    return arena_alloc(n);
  void *p = malloc(n ? n : 1);
  if (!p)
    throw std::bad_alloc();
  return p;
}
void *operator new[](size_t n) { return operator new(n); }
void *operator new(size_t n, const std::nothrow_t &) noexcept
{
  try
  {
    return operator new(n);
  }
  catch (...)
  {
    return nullptr;
  }
}
void *operator new[](size_t n, const std::nothrow_t &t) noexcept { return operator new(n, t); }

void operator delete(void *p) noexcept
{
  if (!p)
    return;
  if (in_arena(p))
  {
    if (sim_layout_free_hook)
      sim_layout_free_hook(p, (static_cast<header *>(p) - 1)->size);
    arena_free(p);
  }
  else
  {
    if (sim_layout_free_hook)
      sim_layout_free_hook(p, malloc_usable_size(p));
    free(p);
  }
}
void operator delete[](void *p) noexcept { operator delete(p); }
void operator delete(void *p, size_t) noexcept { operator delete(p); }
void operator delete[](void *p, size_t) noexcept { operator delete(p); }
void operator delete(void *p, const std::nothrow_t &) noexcept { operator delete(p); }
void operator delete[](void *p, const std::nothrow_t &) noexcept { operator delete(p); }
// over-aligned forms always use the C allocator
void *operator new(size_t n, std::align_val_t al)
{
  void *p = nullptr;
  if (posix_memalign(&p, static_cast<size_t>(al) < sizeof(void *) ? sizeof(void *) : static_cast<size_t>(al), n ? n : 1))
    throw std::bad_alloc();
  return p;
}
void *operator new[](size_t n, std::align_val_t al) { return operator new(n, al); }
void operator delete(void *p, std::align_val_t) noexcept { free(p); }
void operator delete[](void *p, std::align_val_t) noexcept { free(p); }
void operator delete(void *p, size_t, std::align_val_t) noexcept { free(p); }
void operator delete[](void *p, size_t, std::align_val_t) noexcept { free(p); }
#endif
