// Seeded PRNG: one integer decides everything. SplitMix64 with named sub-streams so that
// adding a draw in one stream never shifts another.
#pragma once
#include <cstdint>
#include <cstring>
#include <string>

namespace sim
{
  inline uint64_t mix64(uint64_t z)
  {
    z += 0x9e3779b97f4a7c15ULL;
    z = (z ^ (z >> 30)) * 0xbf58476d1ce4e5b9ULL;
    z = (z ^ (z >> 27)) * 0x94d049bb133111ebULL;
    return z ^ (z >> 31);
  }
  inline uint64_t fnv64(const void *p, size_t n, uint64_t h = 1469598103934665603ULL)
  {
    const unsigned char *c = static_cast<const unsigned char *>(p);
    for (size_t i = 0; i < n; ++i)
    {
      h ^= c[i];
      h *= 1099511628211ULL;
    }
    return h;
  }
  inline uint64_t fnv64(const std::string &s, uint64_t h = 1469598103934665603ULL) { return fnv64(s.data(), s.size(), h); }

  class Rng
  {
  public:
    explicit Rng(uint64_t seed = 1) : s(seed) {}
    uint64_t next()
    {
      s += 0x9e3779b97f4a7c15ULL;
      uint64_t z = s;
      z = (z ^ (z >> 30)) * 0xbf58476d1ce4e5b9ULL;
      z = (z ^ (z >> 27)) * 0x94d049bb133111ebULL;
      return z ^ (z >> 31);
    }
    // uniform in [0,n) (n>0)
    uint64_t below(uint64_t n) { return n ? next() % n : 0; }
    // uniform in [a,b]
    long range(long a, long b) { return a + static_cast<long>(below(static_cast<uint64_t>(b - a + 1))); }
    bool chance(unsigned num, unsigned den) { return below(den) < num; }
    // independent stream derived by name
    Rng derive(const char *name) const { return Rng(mix64(s ^ fnv64(name, strlen(name)))); }
    Rng derive(uint64_t k) const { return Rng(mix64(s ^ mix64(k))); }

  private:
    uint64_t s;
  };
} // namespace sim
