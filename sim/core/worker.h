// Worker process protocol shared by all engines.
//
//   stdin : one command per line   "<verb> <id> key=val key=val ... [body=<n>]"  followed by n body lines
//   stdout: "BEGIN <id>"  (flushed before the run starts, so a dead worker is attributable)
//           lines produced by the run (forwarded verbatim)
//           "END <id> exit=<code> sig=<signal> timeout=<0|1> wall_ms=<ms>"
//
// Every run executes in a forked child: a crash (signal, abort, failed assert, sanitizer exit code) or a
// hang of the system under test kills only the child and is reported in the END line; the arena of the
// layout allocator and every leak die with it, so each run starts from the same pristine process image
// (one seed = one exactly repeatable execution, independent of what the worker ran before).
#pragma once
#include <cstdio>
#include <cstdlib>
#include <cstring>
#include <string>
#include <vector>
#include <map>
#include <functional>
#include <chrono>
#include <unistd.h>
#include <signal.h>
#include <poll.h>
#include <execinfo.h>
#include <sys/wait.h>
#include <sys/personality.h>
#include <sys/resource.h>

namespace sim
{
  struct Cmd
  {
    std::string verb, id;
    std::map<std::string, std::string> kv;
    std::vector<std::string> body;
    long num(const std::string &k, long dflt) const
    {
      auto it = kv.find(k);
      return it == kv.end() ? dflt : strtol(it->second.c_str(), nullptr, 10);
    }
    unsigned long long u64(const std::string &k, unsigned long long dflt) const
    {
      auto it = kv.find(k);
      return it == kv.end() ? dflt : strtoull(it->second.c_str(), nullptr, 10);
    }
    std::string str(const std::string &k, const std::string &dflt) const
    {
      auto it = kv.find(k);
      return it == kv.end() ? dflt : it->second;
    }
  };

  class Out
  {
  public:
    explicit Out(int fd) : fd(fd) {}
    void line(const std::string &s)
    {
      buf += s;
      buf += '\n';
      if (buf.size() > 1 << 15)
        flush();
    }
    void flush()
    {
      size_t off = 0;
      while (off < buf.size())
      {
        ssize_t w = write(fd, buf.data() + off, buf.size() - off);
        if (w <= 0)
          break;
        off += static_cast<size_t>(w);
      }
      buf.clear();
    }
    int fd;

  private:
    std::string buf;
  };

  namespace detail
  {
    inline int g_child_fd = -1;
    inline Out *g_child_out = nullptr;
    inline void crash_handler(int sig)
    {
      // async-signal-safe enough for a dying child: raw writes only
      if (g_child_out)
        g_child_out->flush();
      char msg[64];
      int n = snprintf(msg, sizeof msg, "X signal=%d\n", sig);
      if (g_child_fd >= 0)
      {
        (void)!write(g_child_fd, msg, static_cast<size_t>(n));
        void *frames[48];
        int k = backtrace(frames, 48);
        n = snprintf(msg, sizeof msg, "X frames=%d\n", k);
        (void)!write(g_child_fd, msg, static_cast<size_t>(n));
        (void)!write(g_child_fd, "X backtrace-begin\n", 18);
        backtrace_symbols_fd(frames, k, g_child_fd);
        (void)!write(g_child_fd, "X backtrace-end\n", 16);
      }
      _exit(128 + sig);
    }
    inline bool parse_cmd(const std::string &line, Cmd &c)
    {
      c = Cmd();
      size_t i = 0;
      std::vector<std::string> tok;
      while (i < line.size())
      {
        while (i < line.size() && line[i] == ' ')
          ++i;
        size_t j = i;
        while (j < line.size() && line[j] != ' ')
          ++j;
        if (j > i)
          tok.push_back(line.substr(i, j - i));
        i = j;
      }
      if (tok.size() < 2)
        return false;
      c.verb = tok[0];
      c.id = tok[1];
      for (size_t k = 2; k < tok.size(); ++k)
      {
        size_t e = tok[k].find('=');
        if (e == std::string::npos)
          c.kv[tok[k]] = "1";
        else
          c.kv[tok[k].substr(0, e)] = tok[k].substr(e + 1);
      }
      return true;
    }
    inline bool read_line(std::string &s)
    {
      s.clear();
      int ch;
      while ((ch = fgetc(stdin)) != EOF)
      {
        if (ch == '\n')
          return true;
        s += static_cast<char>(ch);
      }
      return !s.empty();
    }
  } // namespace detail

  using RunFn = std::function<void(const Cmd &, Out &)>;

  // re-exec once with ASLR disabled so that stack/global/library addresses are stable as well
  inline void disable_aslr(char **argv)
  {
    if (getenv("VERIF_KEEP_ASLR"))
      return;
    int cur = personality(0xffffffff);
    if (cur != -1 && !(cur & ADDR_NO_RANDOMIZE))
    {
      if (personality(cur | ADDR_NO_RANDOMIZE) != -1)
      {
        setenv("VERIF_KEEP_ASLR", "1", 1); // never loop
        execv("/proc/self/exe", argv);
      }
    }
  }

  inline int worker_main(int, char **argv, RunFn fn, long default_timeout_ms = 20000)
  {
    disable_aslr(argv);
    signal(SIGPIPE, SIG_IGN);
    {
      void *warm[4];
      (void)backtrace(warm, 4); // loads the unwinder now, so the crash handler of a child never has to
    }
    const bool nofork = getenv("VERIF_NOFORK") != nullptr;
    std::string line;
    while (detail::read_line(line))
    {
      if (line == "quit")
        break;
      Cmd c;
      if (!detail::parse_cmd(line, c))
        continue;
      long nb = c.num("body", 0);
      for (long i = 0; i < nb; ++i)
      {
        std::string b;
        if (!detail::read_line(b))
          break;
        c.body.push_back(b);
      }
      printf("BEGIN %s\n", c.id.c_str());
      fflush(stdout);
      const auto t0 = std::chrono::steady_clock::now();
      int exit_code = 0, sig = 0, timed_out = 0;
      if (nofork)
      {
        Out o(1);
        fn(c, o);
        o.flush();
      }
      else
      {
        int pfd[2];
        if (pipe(pfd) != 0)
        {
          perror("pipe");
          return 2;
        }
        pid_t pid = fork();
        if (pid < 0)
        {
          perror("fork");
          return 2;
        }
        if (pid == 0)
        {
          close(pfd[0]);
          fclose(stdin);
          detail::g_child_fd = pfd[1];
          Out o(pfd[1]);
          detail::g_child_out = &o;
          struct sigaction sa;
          memset(&sa, 0, sizeof sa);
          sa.sa_handler = detail::crash_handler;
          sa.sa_flags = SA_RESETHAND | SA_NODEFER;
          for (int s : {SIGSEGV, SIGABRT, SIGBUS, SIGFPE, SIGILL, SIGUSR1}) // SIGUSR1: the parent's watchdog asks where the run is stuck
            sigaction(s, &sa, nullptr);
          long mem_mb = c.num("mem_mb", 0);
          if (mem_mb > 0)
          {
            struct rlimit rl;
            rl.rlim_cur = rl.rlim_max = static_cast<rlim_t>(mem_mb) << 20;
            setrlimit(RLIMIT_DATA, &rl);
          }
          fn(c, o);
          o.flush();
          _exit(0);
        }
        close(pfd[1]);
        const long limit = c.num("timeout_ms", default_timeout_ms);
        std::string acc;
        char buf[65536];
        for (;;)
        {
          long el = std::chrono::duration_cast<std::chrono::milliseconds>(std::chrono::steady_clock::now() - t0).count();
          long left = limit - el;
          if (left <= 0 && !timed_out)
          { // out of time: ask for a backtrace (says whether the system under test or the harness is stuck), kill half a second later
            timed_out = 1;
            kill(pid, SIGUSR1);
          }
          if (left <= -500)
          {
            kill(pid, SIGKILL);
            break;
          }
          if (timed_out)
            left = 100;
          struct pollfd p = {pfd[0], POLLIN, 0};
          int r = poll(&p, 1, static_cast<int>(left > 1000 ? 1000 : left));
          if (r > 0)
          {
            ssize_t n = read(pfd[0], buf, sizeof buf);
            if (n <= 0)
              break;
            acc.append(buf, static_cast<size_t>(n));
            size_t nl;
            while ((nl = acc.find('\n')) != std::string::npos)
            {
              fwrite(acc.data(), 1, nl + 1, stdout);
              acc.erase(0, nl + 1);
            }
          }
        }
        if (!acc.empty())
        {
          fwrite(acc.data(), 1, acc.size(), stdout);
          fputc('\n', stdout);
        }
        close(pfd[0]);
        int st = 0;
        waitpid(pid, &st, 0);
        if (WIFEXITED(st))
          exit_code = WEXITSTATUS(st);
        if (WIFSIGNALED(st))
          sig = WTERMSIG(st);
        if (exit_code > 128 && exit_code < 128 + 65)
        { // our crash handler exits with 128+sig
          sig = exit_code - 128;
          exit_code = 0;
        }
        if (timed_out)
          sig = 0;
      }
      long wall = std::chrono::duration_cast<std::chrono::milliseconds>(std::chrono::steady_clock::now() - t0).count();
      printf("END %s exit=%d sig=%d timeout=%d wall_ms=%ld\n", c.id.c_str(), exit_code, sig, timed_out, wall);
      fflush(stdout);
    }
    return 0;
  }
} // namespace sim
