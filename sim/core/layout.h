// Seeded heap-layout allocator (see layout.cpp).
#pragma once
#include <cstddef>
#include <cstdint>

namespace sim
{
  namespace layout
  {
    // from now on, operator new on the calling thread takes blocks from the fixed-address arena;
    // randomise=false gives a LIFO (still ASLR-independent) layout. limit_bytes caps the arena
    // (std::bad_alloc beyond it) so that runaway allocation ends cleanly.
    void start(uint64_t seed, bool randomise, size_t limit_bytes = 0);
    void *pool_alloc(size_t n); // a separate fixed-address LIFO pool for one kind of object (see layout.cpp)
    void pool_free(void *p);
    void set_poison(int byte); // >= 0: every block handed out is filled with this byte first (what "uninitialised" or "just beyond" memory reads as is then the simulator's choice); -1 = off
    void configure(size_t arena_bytes, size_t free_entries_per_class); // before the first start(): a smaller footprint (engines that run under an address-space limit)
    void stop();
    bool active();
    void suspend(); // nestable: allocations go to malloc (used around z3 and harness-internal work)
    void resume();
    uint64_t allocations();
    size_t bytes_used();
    struct Suspend
    {
      Suspend() { suspend(); }
      ~Suspend() { resume(); }
    };
  } // namespace layout
} // namespace sim
