// Small helpers shared by the engines: ops as (name, integer arguments), event log hash, counters.
#pragma once
#include "prng.h"
#include <cstdint>
#include <map>
#include <sstream>
#include <string>
#include <vector>

namespace sim
{
  // An operation of a generated history. All arguments are integers and are interpreted modulo what
  // exists when the op executes, so deleting ops or shrinking numbers keeps the rest meaningful.
  struct Op
  {
    std::string name;
    std::vector<long> a;
    std::string text() const
    {
      std::string s = name;
      for (long v : a)
      {
        s += ' ';
        s += std::to_string(v);
      }
      return s;
    }
    static bool parse(const std::string &line, Op &op)
    {
      std::istringstream is(line);
      op = Op();
      if (!(is >> op.name))
        return false;
      long v;
      while (is >> v)
        op.a.push_back(v);
      return true;
    }
    long arg(size_t i, long dflt = 0) const { return i < a.size() ? a[i] : dflt; }
  };

  class EventLog
  {
  public:
    void ev(const std::string &s)
    {
      h = fnv64(s, h);
      h = fnv64("\n", 1, h);
      ++n;
      if (keep)
        lines.push_back(s);
    }
    uint64_t hash() const { return h; }
    uint64_t count() const { return n; }
    bool keep = false;
    std::vector<std::string> lines;

  private:
    uint64_t h = 1469598103934665603ULL;
    uint64_t n = 0;
  };

  struct Counters
  {
    std::map<std::string, long> c;
    void inc(const std::string &k, long d = 1) { c[k] += d; }
  };

  inline std::string hex64(uint64_t v)
  {
    char b[32];
    snprintf(b, sizeof b, "%016llx", static_cast<unsigned long long>(v));
    return b;
  }
} // namespace sim
